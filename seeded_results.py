#!/usr/bin/env python3
"""Writes seeded/RESULTS.md from seeded/*/meta.json."""
import json, glob, os
rows=[]
for d in sorted(glob.glob('/verif/seeded/*/')):
    m=os.path.join(d,'meta.json')
    if not os.path.exists(m): continue
    j=json.load(open(m))
    runs=j.get('check_runs',[])
    first=runs[0] if runs else {}
    last=runs[-1] if runs else {}
    readme=''
    rp=os.path.join(d,'README.md')
    if os.path.exists(rp):
        for line in open(rp):
            line=line.strip()
            if line and not line.startswith('#'):
                readme=line[:220]; break
    rows.append((os.path.basename(d.rstrip('/')), j.get('property'), first, last, len(runs), readme, j.get('note','')))
out=["# Seeded changes (written by independent sub-agents that saw only the property text)\n",
"Each directory holds `patch.diff` (applies to /repo HEAD), the agent's demonstration test(s), its README and `meta.json`.",
"Every change was confirmed with `seedtest.sh` in a scratch worktree: it builds, the pinned suite passes, the demonstration fails with the change and passes without it.",
"`first run` is the property's quick check the first time it met the change; where that was a miss the check was strengthened and `last run` shows the result afterwards.\n",
"| id | first run | last run | what the change needs to manifest (from the agent's README) |","|---|---|---|---|"]
def fmt(r):
    if not r: return '-'
    return ('caught' if r.get('exit_code')==1 else 'MISSED' if r.get('exit_code')==0 else 'inconclusive')+' (%s, %ss)'%(r.get('tier'),r.get('seconds'))
for name,p,first,last,n,readme,note in rows:
    out.append('| %s | %s | %s | %s %s |'%(name,fmt(first),fmt(last) if n>1 else '=',readme.replace('|','/'),('**'+note+'**') if note else ''))
open('/verif/seeded/RESULTS.md','w').write('\n'.join(out)+'\n')
print(len(rows),'rows')
