#!/bin/bash
# usage: mutate_multi.sh <ID[,ID]> <patchfile> [tier]   — applies a git patch to /repo, runs checks, reverts
ID=$1; PATCH=$2; TIER=${3:-quick}
cd /repo || exit 3
git diff --quiet || { echo "repo dirty"; exit 3; }
git apply "$PATCH" || { echo "patch does not apply"; exit 3; }
export GOFLAGS=-mod=mod GOPROXY=off GOSUMDB=off GOTOOLCHAIN=local
go build ./... 2>&1 | head -5
cd /verif
IFS=',' read -ra IDS <<< "$ID"
for id in "${IDS[@]}"; do
  start=$(date +%s)
  cp evidence/$id.json /var/tmp/ev.$$.$id.json 2>/dev/null
  ./check $id --tier $TIER > /var/tmp/mut.$$.log 2>&1; rc=$?
  end=$(date +%s)
  mv /var/tmp/ev.$$.$id.json evidence/$id.json 2>/dev/null
  echo "MUTANT $id rc=$rc t=$((end-start))s : $(grep -m1 'violation detail' /var/tmp/mut.$$.log | cut -c1-300)"
  [ $rc -eq 2 ] && tail -5 /var/tmp/mut.$$.log
done
rm -f /var/tmp/mut.$$.log
git -C /repo checkout -- .
