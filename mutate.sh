#!/bin/bash
# usage: mutate.sh <ID> <file-in-repo> <python-regex-or-literal old> <new> [tier]
# Applies a one-off textual mutation to /repo/<file>, runs ./check <ID>, reverts. For sensitivity testing only.
set -u
ID=$1; F=$2; OLD=$3; NEW=$4; TIER=${5:-quick}
cd /repo || exit 3
if ! git diff --quiet -- "$F"; then echo "repo file dirty: $F"; exit 3; fi
python3 - "$F" "$OLD" "$NEW" <<'PY' || { git checkout -- "$F"; exit 3; }
import sys
f,old,new=sys.argv[1:4]
s=open(f).read()
if s.count(old)!=1:
    print("mutation site count =",s.count(old)); sys.exit(1)
open(f,'w').write(s.replace(old,new))
PY
export GOFLAGS=-mod=mod GOPROXY=off GOSUMDB=off GOTOOLCHAIN=local
( go build ./... 2>&1 | head -5 )
cd /verif
IFS=',' read -ra IDS <<< "$ID"
for id in "${IDS[@]}"; do
  start=$(date +%s)
  cp evidence/$id.json /var/tmp/ev.$$.$id.json 2>/dev/null
  ./check $id --tier $TIER > /var/tmp/mut.$$.log 2>&1; rc=$?
  end=$(date +%s)
  mv /var/tmp/ev.$$.$id.json evidence/$id.json 2>/dev/null
  echo "MUTANT $id rc=$rc t=$((end-start))s : $(grep -m1 'violation detail' /var/tmp/mut.$$.log | cut -c1-300)"
  [ $rc -eq 2 ] && tail -5 /var/tmp/mut.$$.log
done
rm -f /var/tmp/mut.$$.log
git -C /repo checkout -- "$F"
