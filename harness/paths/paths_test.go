package paths

import (
	"testing"

	"verifharness/internal/harn"
)

func TestMain(m *testing.M) { harn.Main(m) }

func init() { harn.Register("C16_Paths", Run) }

func TestReplay(t *testing.T)  { harn.Replay(t) }
func TestRegress(t *testing.T) { harn.Regress(t) }

func TestC16_Paths(t *testing.T) { harn.Check(t, "C16_Paths", Gen, Run) }

// TestC16_Exhaustive enumerates every name list of length ≤ L over the whole
// alphabet × every directory of depth ≤ 3 over {a,b}.
func TestC16_Exhaustive(t *testing.T) {
	L := 3
	if harn.Thorough() {
		L = 4
	}
	var dirs [][]string
	var rec func(cur []string, d int)
	rec = func(cur []string, d int) {
		dirs = append(dirs, append([]string(nil), cur...))
		if d == 3 {
			return
		}
		for _, n := range []string{"a", "b"} {
			rec(append(cur, n), d+1)
		}
	}
	rec(nil, 0)
	// depth alone matters for accept/reject; keep all dirs for L ≤ 3, one per depth for L = 4
	var names func(cur []harn.B, n int, f func([]harn.B))
	names = func(cur []harn.B, n int, f func([]harn.B)) {
		f(cur)
		if n == 0 {
			return
		}
		for _, a := range Alphabet {
			names(append(cur, harn.B(a)), n-1, f)
		}
	}
	count := 0
	names(nil, L, func(ns []harn.B) {
		for _, d := range dirs {
			if len(ns) == 4 && len(d) > 0 && d[len(d)-1] != "a" {
				continue
			}
			for _, abs := range []bool{false, true} {
				if abs && len(d) != 0 {
					continue // Abs only affects ToWalk, which ignores dir
				}
				c := Case{Dir: d, Names: append([]harn.B(nil), ns...), Abs: abs}
				r := Run(c)
				count++
				if r.Err != nil {
					harn.RunOne(t, "C16_Paths", c, Run) // reports and journals
				}
			}
		}
	})
	harn.Count("exhaustive_cases", count)
	t.Logf("exhaustive: %d cases, lists ≤ %d over %d-element alphabet", count, L, len(Alphabet))
}

func FuzzPaths(f *testing.F) {
	f.Add([]byte{0, 2, 2, 6}, uint8(2), false)
	f.Add([]byte{6, 2}, uint8(1), true)
	f.Add([]byte{10, 1, 0}, uint8(0), false)
	f.Fuzz(func(t *testing.T, sel []byte, depth uint8, abs bool) {
		var c Case
		for i := 0; i < int(depth%6); i++ {
			c.Dir = append(c.Dir, dirNames[i%len(dirNames)])
		}
		if len(sel) > 12 {
			sel = sel[:12]
		}
		for _, b := range sel {
			if int(b) < len(Alphabet) {
				c.Names = append(c.Names, harn.B(Alphabet[b]))
			} else {
				// raw short string from the byte itself
				c.Names = append(c.Names, harn.B([]byte{".a/\\"[b%4], ".a/\\"[(b/4)%4]}))
			}
		}
		c.Abs = abs
		if r := Run(c); r.Err != nil {
			t.Fatalf("VERIF-FAIL test=C16_Paths: %v", r.Err)
		}
	})
}
