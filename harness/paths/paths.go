// Package paths decides C16: the exported path helpers of go-p9p accept
// exactly the safe name lists and never climb above the root.  The oracle is
// a reference resolver written from the property statement (a stack machine);
// it shares no code with path.go.
package paths

import (
	"fmt"
	"path"
	"strings"

	p9p "github.com/frobnitzem/go-p9p"
	"pgregory.net/rapid"

	"verifharness/internal/harn"
)

// Case: a canonical directory (list of ordinary components) and a name list.
type Case struct {
	Dir   []string // components; "/" is the empty list
	Names []harn.B
	Abs   bool // for ToWalk: prefix the joined names with "/"
}

// Alphabet contains every special form the property lists.
var Alphabet = []string{
	"", ".", "..", "...", "..a", "a..", "a", "b", "a.b", " ", "a/b", "/", "a\\b", "\\", "a\x00b",
	"../x", "/etc", "x/..", ". ", "..\\",
}

var dirNames = []string{"a", "b", "c", "a.b", "..a", "...", " "}

func Gen(t *rapid.T) Case {
	var c Case
	c.Dir = rapid.SliceOfN(rapid.SampledFrom(dirNames), 0, 5).Draw(t, "dir")
	elem := rapid.OneOf(
		rapid.SampledFrom(Alphabet),
		rapid.SampledFrom([]string{"..", "..", "a", "b"}), // bias: leading runs of ".."
		rapid.StringOfN(rapid.RuneFrom([]rune{'.', '/', '\\', 'a', 'b', 0, ' '}), 0, 4, -1),
	)
	names := rapid.SliceOfN(elem, 0, 8).Draw(t, "names")
	if rapid.IntRange(0, 14).Draw(t, "long") == 0 {
		// lists longer than a Twalk may carry (16): the helpers are also used locally, on whole paths
		long := rapid.SliceOfN(rapid.SampledFrom([]string{"a", "b", "c", "a.b", "..a", "x", "dir"}), 12, 40).Draw(t, "longnames")
		k := rapid.IntRange(0, 3).Draw(t, "longlead")
		names = nil
		for i := 0; i < k; i++ {
			names = append(names, "..")
		}
		names = append(names, long...)
	}
	for _, n := range names {
		c.Names = append(c.Names, harn.B(n))
	}
	c.Abs = rapid.Bool().Draw(t, "abs")
	return c
}

func hasSep(s string) bool { return strings.ContainsAny(s, "/\\") }

// refValid: -1 exactly when some element is empty, ".", contains a separator,
// or a ".." follows a non-".."; else the number of leading "..".
func refValid(names []string) int {
	lead := 0
	seenOrdinary := false
	for _, s := range names {
		switch {
		case s == "" || s == "." || hasSep(s):
			return -1
		case s == "..":
			if seenOrdinary {
				return -1
			}
			lead++
		default:
			seenOrdinary = true
		}
	}
	return lead
}

// refResolve resolves names stepwise from dir; ok=false if it would climb
// above the root. "" and "." are no-ops (only used for raw lists).
func refResolve(dir []string, names []string) ([]string, bool) {
	stack := append([]string(nil), dir...)
	for _, s := range names {
		switch s {
		case "", ".":
		case "..":
			if len(stack) == 0 {
				return nil, false
			}
			stack = stack[:len(stack)-1]
		default:
			stack = append(stack, s)
		}
	}
	return stack, true
}

func canon(stack []string) string { return "/" + strings.Join(stack, "/") }

// refNormalize: drop ""/"."; ".." cancels a preceding ordinary element, else
// it stays as part of the leading run.
func refNormalize(names []string) ([]string, int) {
	for _, s := range names {
		if hasSep(s) {
			return nil, -1
		}
	}
	var out []string
	lead := 0
	for _, s := range names {
		switch s {
		case "", ".":
		case "..":
			if len(out) > lead {
				out = out[:len(out)-1]
			} else {
				out = append(out, "..")
				lead++
			}
		default:
			out = append(out, s)
		}
	}
	return out, lead
}

func eqStrs(a, b []string) bool {
	if len(a) != len(b) {
		return false
	}
	for i := range a {
		if a[i] != b[i] {
			return false
		}
	}
	return true
}

func isCanonical(p string) bool {
	return strings.HasPrefix(p, "/") && path.Clean(p) == p && !strings.Contains(p, "\\")
}

func Run(c Case) harn.Result {
	names := make([]string, len(c.Names))
	special := false
	for i, n := range c.Names {
		names[i] = string(n)
		if names[i] == "" || names[i] == "." || names[i] == ".." || hasSep(names[i]) {
			special = true
		}
	}
	dir := canon(c.Dir)
	depth := len(c.Dir)
	res := harn.Result{NonTrivial: special}

	// ValidPath
	wantV := refValid(names)
	if got := p9p.ValidPath(append([]string(nil), names...)); got != wantV {
		return harn.Fail("ValidPath(%q) = %d, reference %d", names, got, wantV)
	}

	// WalkName
	got, err := p9p.WalkName(dir, append([]string(nil), names...)...)
	if wantV < 0 || wantV > depth {
		if err == nil {
			return harn.Fail("WalkName(%q, %q) accepted (→ %q); reference rejects (valid=%d depth=%d)", dir, names, got, wantV, depth)
		}
		res.Classes = append(res.Classes, "walk_reject")
	} else {
		stack, ok := refResolve(c.Dir, names)
		if !ok {
			return harn.Fail("internal: reference resolve failed")
		}
		if err != nil {
			return harn.Fail("WalkName(%q, %q) rejected (%v); reference accepts → %q", dir, names, err, canon(stack))
		}
		if got != canon(stack) {
			return harn.Fail("WalkName(%q, %q) = %q, stepwise resolution gives %q", dir, names, got, canon(stack))
		}
		if !isCanonical(got) {
			return harn.Fail("WalkName(%q, %q) = %q is not a canonical internal path", dir, names, got)
		}
		res.Classes = append(res.Classes, "walk_accept")
	}

	// CreateName with every element as the candidate name
	for _, n := range names {
		got, err := p9p.CreateName(dir, n)
		ok := n != "" && n != "." && n != ".." && !hasSep(n)
		if ok {
			want := canon(append(append([]string(nil), c.Dir...), n))
			if err != nil {
				return harn.Fail("CreateName(%q, %q) rejected: %v", dir, n, err)
			}
			if got != want || !isCanonical(got) {
				return harn.Fail("CreateName(%q, %q) = %q, want %q", dir, n, got, want)
			}
		} else if err == nil {
			return harn.Fail("CreateName(%q, %q) accepted (→ %q)", dir, n, got)
		}
	}

	// NormalizePath
	wantN, wantLead := refNormalize(names)
	in := append([]string(nil), names...)
	gotN, gotLead := p9p.NormalizePath(in)
	if !eqStrs(in, names) {
		return harn.Fail("NormalizePath modified its argument: %q → %q", names, in)
	}
	if gotLead != wantLead {
		return harn.Fail("NormalizePath(%q) count = %d, reference %d", names, gotLead, wantLead)
	}
	if wantLead >= 0 {
		if !eqStrs(gotN, wantN) {
			return harn.Fail("NormalizePath(%q) = %q, reference %q", names, gotN, wantN)
		}
		// output is valid with the same count
		if v := p9p.ValidPath(gotN); v != wantLead {
			return harn.Fail("ValidPath(NormalizePath(%q)=%q) = %d, want %d", names, gotN, v, wantLead)
		}
		// idempotent
		again, lead2 := p9p.NormalizePath(append([]string(nil), gotN...))
		if lead2 != gotLead || !eqStrs(again, gotN) {
			return harn.Fail("NormalizePath not idempotent on %q: %q then %q", names, gotN, again)
		}
		// agrees with stepwise resolution from a deep-enough directory
		deep := append([]string(nil), c.Dir...)
		for len(deep) < wantLead {
			deep = append(deep, "d")
		}
		stack, ok := refResolve(deep, names)
		if !ok {
			return harn.Fail("internal: raw resolution climbed above root")
		}
		w, err := p9p.WalkName(canon(deep), gotN...)
		if err != nil || w != canon(stack) {
			return harn.Fail("WalkName(%q, NormalizePath(%q)=%q) = %q,%v; stepwise resolution of the raw names gives %q", canon(deep), names, gotN, w, err, canon(stack))
		}
		res.Classes = append(res.Classes, "normalize_ok")
	} else {
		res.Classes = append(res.Classes, "normalize_reject")
	}

	// ToWalk on the joined path
	p := strings.Join(names, "/")
	if c.Abs {
		p = "/" + p
	}
	isAbs := strings.HasPrefix(p, "/")
	parts := strings.Split(strings.Trim(p, "/"), "/")
	wantS, lead := refNormalize(parts)
	gAbs, gSteps, gErr := p9p.ToWalk(nil, p)
	if gAbs != isAbs {
		return harn.Fail("ToWalk(%q) isAbs = %v", p, gAbs)
	}
	wantErr := lead < 0 || (isAbs && lead != 0)
	if wantErr {
		if gErr == nil {
			return harn.Fail("ToWalk(%q) accepted (steps %q); reference rejects (lead=%d abs=%v)", p, gSteps, lead, isAbs)
		}
	} else {
		if gErr != nil {
			return harn.Fail("ToWalk(%q) rejected: %v", p, gErr)
		}
		if !eqStrs(gSteps, wantS) {
			return harn.Fail("ToWalk(%q) steps = %q, reference %q", p, gSteps, wantS)
		}
		if isAbs && p9p.ValidPath(gSteps) != 0 {
			return harn.Fail("ToWalk(%q): absolute path yields leading '..': %q", p, gSteps)
		}
	}
	return res
}

func (c Case) String() string { return fmt.Sprintf("%q + %q", canon(c.Dir), c.Names) }
