package readdir

import (
	"testing"

	"verifharness/internal/harn"
)

func TestMain(m *testing.M) { harn.Main(m) }

func init() {
	harn.Register("C17_List", RunList)
	harn.Register("C17_E2E", RunE2E)
}

func TestReplay(t *testing.T)  { harn.Replay(t) }
func TestRegress(t *testing.T) { harn.Regress(t) }

func TestC17_Readdir(t *testing.T)  { harn.Check(t, "C17_List", GenListCase(1), RunList) }
func TestC17_Session(t *testing.T)  { harn.Check(t, "C17_List", GenListCase(2), RunList) }
func TestC17_EndToEnd(t *testing.T) { harn.Check(t, "C17_E2E", GenE2E, RunE2E) }
