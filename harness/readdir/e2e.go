package readdir

import (
	"context"
	"fmt"
	"reflect"
	"time"

	p9p "github.com/frobnitzem/go-p9p"
	"pgregory.net/rapid"

	"verifharness/internal/gen"
	"verifharness/internal/harn"
	"verifharness/internal/memconn"
	"verifharness/internal/mockfs"
	"verifharness/internal/refwire"
	"verifharness/internal/stackutil"
)

// E2ECase: a client lists a server directory through CFileSys over a
// connection whose negotiated msize is largest-entry + 11 + Slack.
type E2ECase struct {
	Entries    []EntrySpec
	Batch      int
	Slack      int
	Rendezvous bool
	// CancelAt >= 0: before the iterator call with this number, the iterator is called once
	// with a context that is already cancelled; the caller then carries on with a live one
	CancelAt int
}

func GenE2E(t *rapid.T) E2ECase {
	var c E2ECase
	n := rapid.OneOf(rapid.IntRange(0, 6), rapid.IntRange(0, 40)).Draw(t, "nentries")
	lens := rapid.OneOf(rapid.IntRange(0, 12), rapid.IntRange(0, 200))
	for i := 0; i < n; i++ {
		c.Entries = append(c.Entries, EntrySpec{NL: lens.Draw(t, "nl")})
	}
	if n > 0 && rapid.IntRange(0, 3).Draw(t, "huge") == 0 {
		c.Entries[rapid.IntRange(0, n-1).Draw(t, "hugeat")].NL = rapid.SampledFrom([]int{8150, 8200, 9000, 20000, 60000}).Draw(t, "hugelen")
	}
	c.Batch = rapid.IntRange(0, 5).Draw(t, "batch")
	c.Slack = rapid.OneOf(rapid.SampledFrom([]int{0, 0, 1, 2}), rapid.IntRange(0, 150), rapid.IntRange(0, 70000)).Draw(t, "slack")
	c.Rendezvous = rapid.Bool().Draw(t, "rendezvous")
	c.CancelAt = -1
	if rapid.IntRange(0, 3).Draw(t, "cancel") == 0 {
		c.CancelAt = rapid.IntRange(0, 4).Draw(t, "cancelat")
	}
	if n > 0 && rapid.IntRange(0, 9).Draw(t, "window") == 0 {
		// an entry whose encoding is within 24 bytes of the largest msize (65536): name length 65461..65473 gives 65513..65525 bytes
		c.Entries[rapid.IntRange(0, n-1).Draw(t, "windowat")].NL = rapid.IntRange(65440, 65473).Draw(t, "windowlen")
		c.Slack = 70000
	}
	return c
}

func RunE2E(c E2ECase) harn.Result {
	lc := ListCase{Entries: c.Entries}
	dirs := lc.dirs()
	fs := mockfs.New()
	fs.ListBatch = c.Batch
	fs.PopulateDir("dir", len(dirs), func(i int) (string, []byte) { return string(dirs[i].Name), []byte("xyz")[:i%4%3] })
	want := fs.Listing("dir")
	maxEnc := 0
	for _, d := range want {
		if n := refwire.StatSize(gen.FromDir(d)); n > maxEnc {
			maxEnc = n
		}
	}
	msize := maxEnc + 11 + c.Slack
	if msize < 64 {
		msize = 64
	}
	if msize > 65536 {
		msize = 65536
	}
	st, err := stackutil.Connect(p9p.SSession(p9p.SFileSys(fs)), uint32(msize), memconn.Options{Rendezvous: c.Rendezvous})
	if err != nil {
		return harn.Fail("session setup with msize %d failed: %v", msize, err)
	}
	defer st.Close()
	if m, _ := st.Client.Version(); m != msize {
		return harn.Fail("HARNESS: negotiated msize %d, wanted %d", m, msize)
	}
	type out struct {
		got []p9p.Dir
		err error
	}
	done := make(chan out, 1)
	go func() {
		ctx := context.Background()
		cfs := p9p.CFileSys(st.Client)
		root, err := cfs.Attach(ctx, "u", "", nil)
		if err != nil {
			done <- out{nil, fmt.Errorf("attach: %v", err)}
			return
		}
		_, dir, err := root.Walk(ctx, "dir")
		if err != nil {
			done <- out{nil, fmt.Errorf("walk: %v", err)}
			return
		}
		rn, err := dir.OpenDir(ctx)
		if err != nil {
			done <- out{nil, fmt.Errorf("opendir: %v", err)}
			return
		}
		var got []p9p.Dir
		for i := 0; i < len(want)+3; i++ {
			if i == c.CancelAt {
				cctx, cancel := context.WithCancel(ctx)
				cancel()
				if ds, err := rn(cctx); err == nil {
					// an implementation may ignore the context: then these are entries like any others
					if len(ds) == 0 {
						done <- out{got, nil}
						return
					}
					got = append(got, ds...)
				}
			}
			ds, err := rn(ctx)
			if err != nil {
				done <- out{got, fmt.Errorf("listing failed after %d entries: %v", len(got), err)}
				return
			}
			if len(ds) == 0 {
				done <- out{got, nil}
				return
			}
			got = append(got, ds...)
		}
		done <- out{got, fmt.Errorf("listing did not end after %d reads", len(want)+3)}
	}()
	var o out
	select {
	case o = <-done:
	case <-time.After(40 * time.Second):
		return harn.Fail("listing %d entries over msize %d did not complete within 40s", len(want), msize)
	}
	if o.err != nil {
		return harn.Fail("msize %d (largest entry %d): %v", msize, maxEnc, o.err)
	}
	if len(o.got) != len(want) {
		return harn.Fail("msize %d: client obtained %d entries, server directory has %d", msize, len(o.got), len(want))
	}
	for i := range want {
		if a, b := gen.FromDir(o.got[i]), gen.FromDir(want[i]); !reflect.DeepEqual(a, b) {
			return harn.Fail("msize %d: entry %d differs: client %v, server %v", msize, i, o.got[i], want[i])
		}
	}
	res := harn.Result{Classes: []string{"level3"}}
	total := 0
	for _, d := range want {
		total += refwire.StatSize(gen.FromDir(d))
	}
	if len(want) >= 2 && total > msize-11 {
		res.NonTrivial = true
		res.Classes = append(res.Classes, "multi_read")
	}
	if len(want) == 0 {
		res.Classes = append(res.Classes, "empty_listing")
	}
	if c.Slack <= 2 {
		res.Classes = append(res.Classes, "msize_tight")
	}
	if maxEnc > 8192 {
		res.Classes = append(res.Classes, "entry_over_8k")
	}
	if maxEnc > 65536-24-11 {
		res.Classes = append(res.Classes, "entry_within_24_of_max_msize")
	}
	if c.CancelAt >= 0 && c.CancelAt < len(want)+3 {
		res.Classes = append(res.Classes, "iterator_call_cancelled")
	}
	return res
}
