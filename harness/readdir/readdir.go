// Package readdir decides C17: directory reads deliver every entry exactly
// once, whole and in order — for p9p.Readdir directly, through the server
// session (which substitutes Readdir for directory fids), and end to end
// through the client file-system layer over any negotiated msize.
package readdir

import (
	"bytes"
	"context"
	"fmt"
	"io"

	p9p "github.com/frobnitzem/go-p9p"
	"pgregory.net/rapid"

	"verifharness/internal/gen"
	"verifharness/internal/harn"
	"verifharness/internal/mockfs"
	"verifharness/internal/refwire"
)

// EntrySpec describes one directory entry compactly.
type EntrySpec struct {
	NL, UL int // name / uid length
}

type ReadSpec struct {
	Extra int   // count = largest encoded entry + Extra
	Wrong int64 // ≠0: first try a read at (running offset + Wrong), which must be rejected
	Zero  bool  // first try a read at offset 0 (rejected unless the running offset is 0)
}

type ListCase struct {
	Level   int // 1: NewReaddir directly, 2: through SFileSys(mockfs)
	Entries []EntrySpec
	Batches []int      // sizes in which the underlying iterator hands entries out (cycled); level 2: first value is the mock's batch size
	End     string     // how the iterator signals the end: "nil", "empty", "eof"
	Reads   []ReadSpec // cycled until the listing is exhausted
	// ViaCreate (level 2): the directory that is read is a new one, created with DMDIR through a
	// fid on the populated directory and read through that same fid (create leaves it open):
	// its listing is empty, whatever its parent holds
	ViaCreate bool `json:",omitempty"`
}

func (c *ListCase) dirs() []refwire.D {
	out := make([]refwire.D, len(c.Entries))
	for i, e := range c.Entries {
		name := make([]byte, e.NL)
		for j := range name {
			name[j] = "abcdefghijklmnopqrstuvwxyz"[(i+j)%26]
		}
		// make names unique where there is room
		tag := fmt.Sprintf("%03d", i)
		copy(name, tag)
		uid := bytes.Repeat([]byte{'u'}, e.UL)
		out[i] = refwire.D{Type: uint16(i), Dev: 7, Qid: refwire.Q{Type: uint8(i % 2 * 0x80), Version: uint32(i), Path: uint64(1000 + i)},
			Mode: 0644, Atime: uint32(1000 + i), Mtime: uint32(2000 + i), Length: uint64(i * 3), Name: name, UID: uid, GID: harn.B("g"), MUID: harn.B("m")}
	}
	return out
}

func GenListCase(level int) func(t *rapid.T) ListCase {
	return func(t *rapid.T) ListCase {
		c := ListCase{Level: level}
		n := rapid.OneOf(rapid.IntRange(0, 6), rapid.IntRange(0, 60)).Draw(t, "nentries")
		lens := rapid.OneOf(rapid.IntRange(0, 12), rapid.IntRange(0, 300))
		for i := 0; i < n; i++ {
			c.Entries = append(c.Entries, EntrySpec{NL: lens.Draw(t, "nl"), UL: lens.Draw(t, "ul")})
		}
		if n > 0 && rapid.IntRange(0, 5).Draw(t, "huge") == 0 {
			// one entry far larger than any sensible fixed buffer (a stat record may take up to 65535 bytes)
			c.Entries[rapid.IntRange(0, n-1).Draw(t, "hugeat")].NL = rapid.SampledFrom([]int{8150, 8200, 9000, 20000, 60000}).Draw(t, "hugelen")
		}
		c.Batches = rapid.SliceOfN(rapid.IntRange(1, 9), 1, 4).Draw(t, "batches")
		c.End = rapid.SampledFrom([]string{"nil", "empty", "eof"}).Draw(t, "end")
		if level == 2 && rapid.IntRange(0, 7).Draw(t, "viacreate") == 0 {
			c.ViaCreate = true
		}
		c.Reads = rapid.SliceOfN(rapid.Custom(func(t *rapid.T) ReadSpec {
			r := ReadSpec{Extra: rapid.OneOf(rapid.SampledFrom([]int{0, 0, 1, 2}), rapid.IntRange(0, 120), rapid.IntRange(0, 3000), rapid.Just(70000)).Draw(t, "extra")}
			if rapid.IntRange(0, 7).Draw(t, "wrongp") == 0 {
				r.Wrong = rapid.SampledFrom([]int64{1, -1, 13, 1 << 20, -1 << 20}).Draw(t, "wrong")
			} else if rapid.IntRange(0, 7).Draw(t, "zerop") == 0 {
				r.Zero = true
			}
			return r
		}), 1, 6).Draw(t, "reads")
		return c
	}
}

// reader abstracts "read count bytes at offset" for the level under test.
type reader func(count int, offset int64) ([]byte, error)

func RunList(c ListCase) harn.Result {
	dirs := c.dirs()
	var encs [][]byte
	maxEnc := 0
	for _, d := range dirs {
		e := refwire.EncodeStat(d)
		encs = append(encs, e)
		if len(e) > maxEnc {
			maxEnc = len(e)
		}
	}
	var rd reader
	ctx := context.Background()
	switch c.Level {
	case 1:
		lib := make([]p9p.Dir, len(dirs))
		for i, d := range dirs {
			lib[i] = gen.ToDir(d, i)
		}
		pos, bi := 0, 0
		ended := false
		next := func(ctx context.Context) ([]p9p.Dir, error) {
			if pos >= len(lib) {
				if ended && c.End != "eof" {
					// iterators are not called again after signalling the end by (nil,nil)/(empty,nil)
				}
				ended = true
				switch c.End {
				case "nil":
					return nil, nil
				case "empty":
					return []p9p.Dir{}, nil
				default:
					return nil, io.EOF
				}
			}
			n := c.Batches[bi%len(c.Batches)]
			bi++
			if pos+n > len(lib) {
				n = len(lib) - pos
			}
			out := lib[pos : pos+n]
			pos += n
			return out, nil
		}
		r := p9p.NewReaddir(p9p.NewCodec(), next)
		rd = func(count int, offset int64) ([]byte, error) {
			p, intact := window(count)
			n, err := r.Read(ctx, p, offset)
			if n < 0 || n > count {
				return nil, fmt.Errorf("Read returned n=%d for a %d-byte buffer", n, count)
			}
			if !intact() {
				return nil, fmt.Errorf("Read wrote beyond the %d bytes it was asked for (the buffer was a window into a larger one)", count)
			}
			return p[:n], err
		}
	case 2:
		fs := mockfs.New()
		fs.ListBatch = c.Batches[0]
		var want []refwire.D
		fs.PopulateDir("dir", len(dirs), func(i int) (string, []byte) { return string(dirs[i].Name), nil })
		// the mock lists children sorted by name; recompute the expected listing from the mock itself
		for _, d := range fs.Listing("dir") {
			want = append(want, gen.FromDir(d))
		}
		dirs = want
		encs, maxEnc = nil, 0
		for _, d := range dirs {
			e := refwire.EncodeStat(d)
			encs = append(encs, e)
			if len(e) > maxEnc {
				maxEnc = len(e)
			}
		}
		sess := p9p.SFileSys(fs)
		if _, err := sess.Attach(ctx, 1, p9p.NOFID, "u", ""); err != nil {
			return harn.Fail("HARNESS attach: %v", err)
		}
		if _, err := sess.Walk(ctx, 1, 2, "dir"); err != nil {
			return harn.Fail("HARNESS walk: %v", err)
		}
		if c.ViaCreate {
			if _, _, err := sess.Create(ctx, 2, "zz-created", p9p.DMDIR|0755, p9p.OREAD); err != nil {
				return harn.Fail("creating a directory failed: %v", err)
			}
			encs = nil // a new directory is empty; maxEnc stays: the read sizes are those of the parent's listing
		} else if _, _, err := sess.Open(ctx, 2, p9p.OREAD); err != nil {
			return harn.Fail("opening a directory fid failed: %v", err)
		}
		rd = func(count int, offset int64) ([]byte, error) {
			p, intact := window(count)
			n, err := sess.Read(ctx, 2, p, offset)
			if n < 0 || n > count {
				return nil, fmt.Errorf("Read returned n=%d for a %d-byte buffer", n, count)
			}
			if !intact() {
				return nil, fmt.Errorf("Read wrote beyond the %d bytes it was asked for (the buffer was a window into a larger one)", count)
			}
			return p[:n], err
		}
	default:
		return harn.Fail("HARNESS bad level")
	}
	return checkReads(c, encs, maxEnc, rd)
}

// window returns a buffer of count bytes that is, two times in three, a window into a larger
// one (spare capacity behind it, as with pooled buffers): "at most the requested number of
// bytes" is about len(p), and whatever lies behind it belongs to somebody else.
func window(count int) (p []byte, intact func() bool) {
	spare := 0
	if count%3 != 0 {
		spare = 1 + count%301
	}
	buf := make([]byte, count+spare)
	for i := count; i < len(buf); i++ {
		buf[i] = 0xA5
	}
	return buf[:count], func() bool {
		for _, b := range buf[count:] {
			if b != 0xA5 {
				return false
			}
		}
		return true
	}
}

func checkReads(c ListCase, encs [][]byte, maxEnc int, rd reader) harn.Result {
	res := harn.Result{}
	var offset int64
	next := 0 // index of the next undelivered entry
	nonEmptyReads := 0
	for ri := 0; ; ri++ {
		if ri > len(encs)+3 {
			return harn.Fail("no end of directory after %d reads of a %d-entry listing", ri, len(encs))
		}
		spec := c.Reads[ri%len(c.Reads)]
		count := maxEnc + spec.Extra
		if spec.Wrong != 0 && offset+spec.Wrong >= 0 {
			got, err := rd(count, offset+spec.Wrong)
			if err == nil {
				return harn.Fail("read %d at offset %d (running offset is %d) was accepted and returned %d bytes", ri, offset+spec.Wrong, offset, len(got))
			}
			res.Classes = append(res.Classes, "wrong_offset_rejected")
		}
		if spec.Zero && offset != 0 {
			got, err := rd(count, 0)
			if err == nil {
				return harn.Fail("read %d at offset 0 (running offset is %d) was accepted and returned %d bytes", ri, offset, len(got))
			}
			res.Classes = append(res.Classes, "rewind_rejected")
		}
		got, err := rd(count, offset)
		if err != nil {
			return harn.Fail("read %d (count %d at running offset %d, %d of %d entries delivered) failed: %v", ri, count, offset, next, len(encs), err)
		}
		if len(got) > count {
			return harn.Fail("read %d returned %d bytes for count %d", ri, len(got), count)
		}
		if len(got) == 0 {
			if next != len(encs) {
				return harn.Fail("read %d (count %d ≥ largest entry %d) returned nothing although only %d of %d entries were delivered", ri, count, maxEnc, next, len(encs))
			}
			// end reached; one more read must be empty too
			again, err := rd(count, offset)
			if err != nil || len(again) != 0 {
				return harn.Fail("read after the end of the directory returned %d bytes, err=%v", len(again), err)
			}
			break
		}
		nonEmptyReads++
		// the reply must be whole entries next, next+1, …
		rest := got
		for len(rest) > 0 {
			if next >= len(encs) {
				return harn.Fail("read %d returned %d bytes beyond the last entry", ri, len(rest))
			}
			e := encs[next]
			if len(rest) < len(e) || !bytes.Equal(rest[:len(e)], e) {
				return harn.Fail("read %d: reply is not a sequence of whole entries in listing order: at entry %d expected %d bytes [% x…], reply continues with %d bytes [% x…]", ri, next, len(e), head(e), len(rest), head(rest))
			}
			rest = rest[len(e):]
			next++
		}
		offset += int64(len(got))
	}
	if len(encs) >= 2 && nonEmptyReads >= 2 {
		res.NonTrivial = true
		res.Classes = append(res.Classes, "multi_read")
	}
	if len(encs) == 0 {
		res.Classes = append(res.Classes, "empty_listing")
	}
	res.Classes = append(res.Classes, fmt.Sprintf("level%d", c.Level), "end_"+c.End)
	return res
}

func head(b []byte) []byte {
	if len(b) > 12 {
		return b[:12]
	}
	return b
}
