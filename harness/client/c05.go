package client

import (
	"context"
	"errors"
	"fmt"
	"strings"
	"time"

	p9p "github.com/frobnitzem/go-p9p"
	"pgregory.net/rapid"

	"verifharness/internal/harn"
	"verifharness/internal/refwire"
)

type MuxStep struct {
	Op     string // call | reply | cancel
	Kind   string `json:",omitempty"` // call: which Session method
	Which  int    `json:",omitempty"`
	Err    bool   `json:",omitempty"` // reply with an error reply
	NoWait bool   `json:",omitempty"`
	// call: the call fails before anything is written: "precancel" = its context is already
	// cancelled, "bigwalk" = a Twalk that cannot fit in msize
	Local string `json:",omitempty"`
}

type MuxCase struct {
	Rendezvous bool
	Steps      []MuxStep
}

func GenMux(t *rapid.T) MuxCase {
	c := MuxCase{Rendezvous: rapid.Bool().Draw(t, "rendezvous")}
	max := 40
	if harn.Thorough() {
		max = 80
	}
	step := rapid.Custom(func(t *rapid.T) MuxStep {
		st := MuxStep{Op: rapid.SampledFrom([]string{"call", "call", "call", "reply", "reply", "cancel"}).Draw(t, "op")}
		st.Which = rapid.IntRange(0, 15).Draw(t, "which")
		st.NoWait = rapid.IntRange(0, 2).Draw(t, "nowait") == 0
		switch st.Op {
		case "call":
			st.Kind = rapid.SampledFrom(callKinds).Draw(t, "kind")
			if rapid.IntRange(0, 6).Draw(t, "local") == 0 {
				st.Local = rapid.SampledFrom([]string{"precancel", "bigwalk"}).Draw(t, "localkind")
			}
		case "reply":
			st.Err = rapid.IntRange(0, 4).Draw(t, "err") == 0
		}
		return st
	})
	minLen := rapid.IntRange(2, max/2).Draw(t, "minlen")
	c.Steps = rapid.SliceOfN(step, minLen, max).Draw(t, "steps")
	return c
}

type muxEngine struct {
	r       *rig
	all     []*pending
	held    []*pending // received by the server, not answered (abandoned ones stay here)
	trace   []string
	arrival int
}

func (e *muxEngine) fail(format string, a ...any) error {
	t := e.trace
	if len(t) > 40 {
		t = append([]string{"…"}, t[len(t)-40:]...)
	}
	return fmt.Errorf("%s [history: %s]", fmt.Sprintf(format, a...), strings.Join(t, "; "))
}

// absorb reads request frames from the client until cond holds.
func (e *muxEngine) absorb(cond func() bool) error {
	deadline := time.Now().Add(bound)
	for !cond() {
		left := time.Until(deadline)
		if left <= 0 {
			return e.fail("the server did not receive an issued request within %v", bound)
		}
		f, ok, err := e.r.srv.Next(minDur(left, 50*time.Millisecond))
		if !ok {
			if err != nil {
				return e.fail("client closed the connection: %v", err)
			}
			continue
		}
		if f.Msg == nil {
			return e.fail("client sent a frame that does not decode: %v", f.Err)
		}
		mk, okm := requestMarker(f.Msg)
		if !okm {
			return e.fail("client sent unexpected %s", refwire.KindName[f.Msg.Kind])
		}
		var p *pending
		for _, q := range e.all {
			if q.marker == mk && (!q.seen || (q.local && !q.arrived)) {
				p = q
			}
		}
		if p == nil {
			return e.fail("client sent a request with marker %#x that no call issued (or sent it twice)", mk)
		}
		if f.Msg.Kind != requestKind[p.kind] {
			return e.fail("call %s produced a %s request", p.kind, refwire.KindName[f.Msg.Kind])
		}
		if f.Msg.Tag == 0xFFFF {
			return e.fail("request %s (marker %#x) carries the reserved NOTAG", p.kind, mk)
		}
		for _, h := range e.held {
			if h.tag == f.Msg.Tag {
				what := "still awaiting its reply"
				if h.abandoned {
					what = "abandoned by its caller but never answered"
				}
				return e.fail("request %s (marker %#x) reuses tag %d of request marker %#x, which is %s", p.kind, mk, f.Msg.Tag, h.marker, what)
			}
		}
		p.tag, p.seen = f.Msg.Tag, true
		if p.local {
			p.arrived, p.abandoned = true, true
		}
		e.held = append(e.held, p)
	}
	return nil
}

func minDur(a, b time.Duration) time.Duration {
	if a < b {
		return a
	}
	return b
}

// checkReturn verifies the outcome of a call that was answered.
func (e *muxEngine) checkReturn(p *pending, errReply bool) error {
	if !p.wait(bound) {
		return e.fail("call %s (marker %#x, tag %d) did not return within %v after its reply was sent", p.kind, p.marker, p.tag, bound)
	}
	if errReply {
		want := p.errText
		if want == "" {
			want = fmt.Sprintf("E%08x", p.marker)
		}
		re, ok := p.res.err.(p9p.MessageRerror)
		if !ok || re.Ename != want {
			return e.fail("call %s (marker %#x) was answered with Rerror %q but returned err=%v", p.kind, p.marker, want, p.res.err)
		}
		return nil
	}
	if p.res.err != nil {
		return e.fail("call %s (marker %#x, tag %d) returned error %v although the server answered it", p.kind, p.marker, p.tag, p.res.err)
	}
	if p.res.has && p.res.marker != p.marker {
		return e.fail("call %s (marker %#x, tag %d) returned the result meant for the call with marker %#x", p.kind, p.marker, p.tag, p.res.marker)
	}
	return nil
}

func RunMux(c MuxCase) harn.Result {
	r, err := newRig(c.Rendezvous, 0)
	if err != nil {
		return harn.Fail("session setup failed: %v", err)
	}
	defer r.close()
	e := &muxEngine{r: r}
	res := harn.Result{}
	next := uint32(0x1000)
	type owed struct {
		p   *pending
		err bool
	}
	var toCheck []owed
	maxOut, outOfOrder, abandonedAnswered, localFailed := 0, false, false, false
	barrier := func() error {
		if err := e.absorb(func() bool {
			for _, p := range e.all {
				if !p.seen {
					return false
				}
			}
			return true
		}); err != nil {
			return err
		}
		for _, o := range toCheck {
			if err := e.checkReturn(o.p, o.err); err != nil {
				return err
			}
		}
		toCheck = nil
		return nil
	}
	for _, st := range c.Steps {
		switch st.Op {
		case "call":
			next++
			if st.Local != "" {
				// a call that fails locally while others are pending: it must return an error
				// promptly and must not disturb the pending ones
				var p *pending
				if st.Local == "precancel" {
					ctx, cancel := context.WithCancel(context.Background())
					cancel()
					p = r.startCtx(st.Kind, next, ctx, cancel)
				} else {
					p = r.start("bigwalk", next)
				}
				p.local, p.seen = true, true
				e.all = append(e.all, p)
				e.trace = append(e.trace, fmt.Sprintf("call %s m%#x failing locally (%s)", p.kind, next, st.Local))
				localFailed = true
				if !p.wait(bound) {
					return harn.Result{Err: e.fail("call %s (marker %#x) that cannot be sent (%s) did not return within %v", p.kind, p.marker, st.Local, bound)}
				}
				if p.res.err == nil {
					return harn.Result{Err: e.fail("call %s (marker %#x) that cannot be sent (%s) returned success", p.kind, p.marker, st.Local)}
				}
				continue
			}
			p := r.start(st.Kind, next)
			e.all = append(e.all, p)
			e.trace = append(e.trace, fmt.Sprintf("call %s m%#x", st.Kind, next))
			if !st.NoWait {
				if err := barrier(); err != nil {
					return harn.Result{Err: err}
				}
			}
		case "reply":
			if err := e.absorb(func() bool {
				for _, p := range e.all {
					if !p.seen {
						return false
					}
				}
				return true
			}); err != nil {
				return harn.Result{Err: err}
			}
			if len(e.held) == 0 {
				continue
			}
			live := 0
			for _, h := range e.held {
				if !h.abandoned {
					live++
				}
			}
			if live > maxOut {
				maxOut = live
			}
			i := st.Which % len(e.held)
			p := e.held[i]
			if i != 0 {
				outOfOrder = true
			}
			e.held = append(e.held[:i], e.held[i+1:]...)
			var m *refwire.Msg
			if st.Err {
				p.errText = fmt.Sprintf("E%08x", p.marker)
				if st.Which%3 == 0 {
					// error texts the library itself uses: to the client they are texts like any other
					p.errText = []string{"duplicate tag", "unknown tag", "closed", "duplicate fid", "unknown fid"}[(st.Which/3)%5]
				}
				m = &refwire.Msg{Kind: refwire.Rerror, Tag: p.tag, Ename: harn.B(p.errText)}
			} else {
				m = goodReply(p.kind, p.tag, p.marker)
			}
			e.trace = append(e.trace, fmt.Sprintf("reply tag %d m%#x err=%v abandoned=%v", p.tag, p.marker, st.Err, p.abandoned))
			r.srv.Send(m)
			p.answered = true
			if p.abandoned {
				abandonedAnswered = true
			} else {
				toCheck = append(toCheck, owed{p, st.Err})
			}
			if !st.NoWait {
				if err := barrier(); err != nil {
					return harn.Result{Err: err}
				}
			}
		case "cancel":
			if err := barrier(); err != nil {
				return harn.Result{Err: err}
			}
			var cands []*pending
			for _, h := range e.held {
				if !h.abandoned {
					cands = append(cands, h)
				}
			}
			if len(cands) == 0 {
				continue
			}
			p := cands[st.Which%len(cands)]
			e.trace = append(e.trace, fmt.Sprintf("abandon m%#x (tag %d)", p.marker, p.tag))
			p.cancel()
			p.abandoned = true
			if !p.wait(bound) {
				return harn.Result{Err: e.fail("call %s (marker %#x) did not return within %v after its context was cancelled", p.kind, p.marker, bound)}
			}
			if !errors.Is(p.res.err, context.Canceled) {
				return harn.Result{Err: e.fail("abandoned call %s (marker %#x) returned err=%v, want context.Canceled", p.kind, p.marker, p.res.err)}
			}
		}
	}
	if err := barrier(); err != nil {
		return harn.Result{Err: err}
	}
	// answer everything that is still waiting
	for len(e.held) > 0 {
		p := e.held[0]
		e.held = e.held[1:]
		r.srv.Send(goodReply(p.kind, p.tag, p.marker))
		if !p.abandoned {
			toCheck = append(toCheck, owed{p, false})
		}
	}
	if err := barrier(); err != nil {
		return harn.Result{Err: err}
	}
	for _, p := range e.all {
		if !p.finished {
			return harn.Result{Err: e.fail("call %s (marker %#x) never returned", p.kind, p.marker)}
		}
	}
	res.NonTrivial = maxOut >= 2 && outOfOrder
	if res.NonTrivial {
		res.Classes = append(res.Classes, "out_of_order_replies")
	}
	if abandonedAnswered {
		res.Classes = append(res.Classes, "abandoned_answered_late")
	}
	if localFailed {
		res.Classes = append(res.Classes, "local_failure_among_pending")
	}
	for _, p := range e.all {
		if p.abandoned && !p.answered {
			res.Classes = append(res.Classes, "abandoned_never_answered")
			break
		}
	}
	if c.Rendezvous {
		res.Classes = append(res.Classes, "rendezvous")
	} else {
		res.Classes = append(res.Classes, "buffered")
	}
	return res
}

// ---- tag wrap

type WrapCase struct {
	Calls int   // total number of calls (> 65535)
	Hold  []int // indices of early calls that are never answered (abandoned by their callers)
}

func GenWrap(t *rapid.T) WrapCase {
	c := WrapCase{Calls: rapid.IntRange(65600, 67000).Draw(t, "calls")}
	n := rapid.IntRange(1, 6).Draw(t, "nhold")
	for i := 0; i < n; i++ {
		c.Hold = append(c.Hold, rapid.OneOf(rapid.IntRange(0, 20), rapid.IntRange(0, 60000)).Draw(t, "hold"))
	}
	return c
}

func RunWrap(c WrapCase) harn.Result {
	r, err := newRig(false, 0)
	if err != nil {
		return harn.Fail("session setup failed: %v", err)
	}
	defer r.close()
	hold := map[uint32]bool{}
	for _, h := range c.Hold {
		hold[uint32(h)] = true
	}
	heldTags := map[uint16]uint32{}
	violation := make(chan string, 1)
	seenHeld := make(chan uint32, 16)
	stop := make(chan struct{})
	defer close(stop)
	go func() {
		for {
			f, ok, err := r.srv.Next(time.Second)
			if !ok {
				if err != nil {
					return
				}
				select {
				case <-stop:
					return
				default:
					continue
				}
			}
			if f.Msg == nil || f.Msg.Kind != refwire.Tclunk {
				select {
				case violation <- fmt.Sprintf("unexpected frame from the client: %v", f.Msg):
				default:
				}
				return
			}
			tag, idx := f.Msg.Tag, f.Msg.Fid
			if tag == 0xFFFF {
				select {
				case violation <- fmt.Sprintf("request #%d carries the reserved NOTAG", idx):
				default:
				}
				return
			}
			if prev, dup := heldTags[tag]; dup {
				select {
				case violation <- fmt.Sprintf("request #%d reuses tag %d, which still belongs to the unanswered (abandoned) request #%d", idx, tag, prev):
				default:
				}
				return
			}
			if hold[idx] {
				heldTags[tag] = idx
				seenHeld <- idx
				continue
			}
			r.srv.Send(&refwire.Msg{Kind: refwire.Rclunk, Tag: tag})
		}
	}()
	ctx := context.Background()
	for i := 0; i < c.Calls; i++ {
		select {
		case v := <-violation:
			return harn.Fail("%s (after %d calls)", v, i)
		default:
		}
		if hold[uint32(i)] {
			cctx, cancel := context.WithCancel(ctx)
			done := make(chan error, 1)
			go func() { done <- r.sess.Clunk(cctx, p9p.Fid(i)) }()
			select {
			case <-seenHeld:
			case v := <-violation:
				cancel()
				return harn.Fail("%s (after %d calls)", v, i)
			case <-time.After(bound):
				cancel()
				return harn.Fail("request #%d never reached the server", i)
			}
			cancel()
			select {
			case <-done:
			case <-time.After(bound):
				return harn.Fail("abandoned call #%d did not return", i)
			}
			continue
		}
		done := make(chan error, 1)
		go func() { done <- r.sess.Clunk(ctx, p9p.Fid(i)) }()
		select {
		case err := <-done:
			if err != nil {
				select {
				case v := <-violation:
					return harn.Fail("%s (after %d calls)", v, i)
				default:
				}
				return harn.Fail("call #%d failed: %v", i, err)
			}
		case v := <-violation:
			return harn.Fail("%s (after %d calls)", v, i)
		case <-time.After(bound):
			return harn.Fail("call #%d did not return within %v", i, bound)
		}
	}
	return harn.Result{NonTrivial: true, Classes: []string{"tag_wrap"}}
}

// ---- allocateTag as a pure function

type AllocCase struct {
	Dense [][2]int // ranges [lo,hi) of tags in use
	Extra []int
	Hint  int
}

func GenAlloc(t *rapid.T) AllocCase {
	var c AllocCase
	n := rapid.IntRange(0, 3).Draw(t, "nranges")
	for i := 0; i < n; i++ {
		lo := rapid.OneOf(rapid.IntRange(0, 10), rapid.IntRange(65500, 65535), rapid.IntRange(0, 65535)).Draw(t, "lo")
		ln := rapid.OneOf(rapid.IntRange(0, 40), rapid.IntRange(0, 40), rapid.IntRange(0, 400), rapid.IntRange(0, 65535)).Draw(t, "len")
		hi := lo + ln
		if hi > 65535 {
			hi = 65535
		}
		c.Dense = append(c.Dense, [2]int{lo, hi})
	}
	c.Extra = rapid.SliceOfN(rapid.OneOf(rapid.IntRange(0, 5), rapid.IntRange(65530, 65534), rapid.IntRange(0, 65534)), 0, 6).Draw(t, "extra")
	c.Hint = rapid.OneOf(rapid.SampledFrom([]int{0, 1, 65533, 65534, 65535}), rapid.IntRange(0, 65535)).Draw(t, "hint")
	if rapid.IntRange(0, 20).Draw(t, "full") == 0 {
		c.Dense = [][2]int{{0, 65535}} // every legal tag in use
	} else if rapid.IntRange(0, 10).Draw(t, "nearfull") == 0 {
		hole := rapid.IntRange(0, 65534).Draw(t, "hole")
		c.Dense = [][2]int{{0, hole}, {hole + 1, 65535}}
		c.Extra = nil
	}
	return c
}

func RunAlloc(c AllocCase) harn.Result {
	in := map[p9p.Tag]bool{}
	for _, r := range c.Dense {
		for t := r[0]; t < r[1]; t++ {
			in[p9p.Tag(t)] = true
		}
	}
	for _, t := range c.Extra {
		in[p9p.Tag(t)] = true
	}
	delete(in, p9p.NOTAG) // the map given to allocateTag never contains NOTAG (documented precondition)
	tags := make([]p9p.Tag, 0, len(in))
	for t := range in {
		tags = append(tags, t)
	}
	got, err := p9p.VerifAllocateTag(tags, p9p.Tag(c.Hint))
	free := 65535 - len(in)
	res := harn.Result{NonTrivial: len(in) > 0}
	if len(in) >= 65534 {
		res.Classes = append(res.Classes, "nearly_full")
	}
	if free == 0 {
		if err == nil {
			return harn.Fail("allocateTag returned tag %d although all 65535 tags are in use", got)
		}
		res.Classes = append(res.Classes, "pool_depleted")
		return res
	}
	if err != nil {
		return harn.Fail("allocateTag failed (%v) although %d tags are free (hint %d)", err, free, c.Hint)
	}
	if got == p9p.NOTAG {
		return harn.Fail("allocateTag returned the reserved NOTAG (hint %d, %d in use)", c.Hint, len(in))
	}
	if in[got] {
		return harn.Fail("allocateTag returned tag %d, which is in use (hint %d, %d in use)", got, c.Hint, len(in))
	}
	return res
}
