package client

import (
	"context"
	"encoding/binary"
	"errors"
	"fmt"
	"strings"
	"time"

	p9p "github.com/frobnitzem/go-p9p"
	"pgregory.net/rapid"

	"verifharness/internal/harn"
	"verifharness/internal/memconn"
	"verifharness/internal/refwire"
)

// HostileStep is one action of a misbehaving server / failing connection.
type HostileStep struct {
	Op      string // call | reply | stray | malformed | cancelcall | fault
	Kind    string `json:",omitempty"` // call: Session method
	Which   int    `json:",omitempty"`
	Variant string `json:",omitempty"` // reply: good | rerror | wrongR | tkind ; stray: unknown | notag | repeat ; malformed: badprefix | oversize | garbage | shortbody | type106 | emptybody ; fault: close | ioerr | ctxcancel
	K       int    `json:",omitempty"`
}

type HostileCase struct {
	Honor      bool // buffered connection that honours deadlines (a write attempted after the connection's deadline fails)
	Rendezvous bool
	MSize      uint32
	Steps      []HostileStep
}

func GenHostile(t *rapid.T) HostileCase {
	c := HostileCase{Rendezvous: rapid.Bool().Draw(t, "rendezvous"), MSize: rapid.SampledFrom([]uint32{0, 256, 4096}).Draw(t, "msize")}
	c.Honor = !c.Rendezvous && rapid.Bool().Draw(t, "honor")
	step := rapid.Custom(func(t *rapid.T) HostileStep {
		st := HostileStep{Op: rapid.SampledFrom([]string{"call", "call", "call", "call", "reply", "reply", "reply", "stray", "malformed", "cancelcall", "deadlinecall", "deadlinecall", "fault"}).Draw(t, "op")}
		st.Which = rapid.IntRange(0, 15).Draw(t, "which")
		st.K = rapid.IntRange(0, 3).Draw(t, "k")
		switch st.Op {
		case "call":
			st.Kind = rapid.SampledFrom(callKinds).Draw(t, "kind")
		case "reply":
			st.Variant = rapid.SampledFrom([]string{"good", "good", "rerror", "wrongR", "tkind"}).Draw(t, "variant")
		case "stray":
			st.Variant = rapid.SampledFrom([]string{"unknown", "notag", "repeat"}).Draw(t, "variant")
		case "malformed":
			st.Variant = rapid.SampledFrom([]string{"badprefix", "oversize", "garbage", "shortbody", "type106", "emptybody"}).Draw(t, "variant")
		case "fault":
			st.Variant = rapid.SampledFrom([]string{"close", "ioerr", "neterr", "localclose", "ctxcancel"}).Draw(t, "variant")
		case "deadlinecall":
			st.Kind = rapid.SampledFrom(callKinds).Draw(t, "kind")
			st.Variant = rapid.SampledFrom([]string{"expired", "expired", "short", "short", "long"}).Draw(t, "variant")
		}
		return st
	})
	max := 25
	if harn.Thorough() {
		max = 50
	}
	minLen := rapid.IntRange(2, max/2).Draw(t, "minlen")
	c.Steps = rapid.SliceOfN(step, minLen, max).Draw(t, "steps")
	return c
}

func RunHostile(c HostileCase) harn.Result {
	r, err := newRigOpt(c.Rendezvous, c.Honor, c.MSize)
	if err != nil {
		return harn.Fail("session setup failed: %v", err)
	}
	defer r.close()
	var all, held []*pending
	var trace []string
	fail := func(format string, a ...any) harn.Result {
		return harn.Fail("%s [script: %s]", fmt.Sprintf(format, a...), strings.Join(trace, "; "))
	}
	// a client that has given up on the session no longer reads; on a rendezvous
	// connection the scripted server's write would then block for ever
	send := func(raw []byte) {
		done := make(chan struct{})
		go func() { r.srv.SendRaw(raw); close(done) }()
		select {
		case <-done:
		case <-time.After(200 * time.Millisecond):
		}
	}
	usedLong := false
	next := uint32(0x2000)
	dead := false      // a fatal event happened: every pending and later call must fail
	uncertain := false // a stray reply was sent: the client may ignore it or give up on the session
	lastAnswered := uint16(0)
	haveAnswered := false
	classes := map[string]bool{}
	pendingAtMisbehaviour := false

	// absorb request frames; returns when every started call was either seen by the server or has returned
	absorb := func() string {
		deadline := time.Now().Add(bound)
		for {
			outstanding := false
			for _, p := range all {
				if !p.seen && !p.finished {
					if p.wait(0) {
						continue
					}
					outstanding = true
				}
			}
			if !outstanding {
				return ""
			}
			if time.Now().After(deadline) {
				return "a call neither reached the server nor returned"
			}
			f, ok, _ := r.srv.Next(5 * time.Millisecond)
			if !ok {
				continue
			}
			if f.Msg == nil {
				continue
			}
			if mk, okm := requestMarker(f.Msg); okm {
				for _, p := range all {
					if p.marker == mk && !p.seen {
						p.seen, p.tag = true, f.Msg.Tag
						held = append(held, p)
					}
				}
			}
		}
	}
	// after a fatal event every pending call must return an error
	allFail := func(why string) *harn.Result {
		for _, p := range all {
			if p.finished {
				continue
			}
			if !p.wait(bound) {
				x := fail("call %s (marker %#x) is still blocked %v after %s", p.kind, p.marker, bound, why)
				return &x
			}
			if p.res.err == nil {
				x := fail("call %s (marker %#x) returned success after %s although it was never answered", p.kind, p.marker, why)
				return &x
			}
		}
		held = nil
		return nil
	}
	livePending := func() int {
		n := 0
		for _, p := range held {
			if !p.finished && !p.abandoned {
				n++
			}
		}
		return n
	}

	for _, st := range c.Steps {
		switch st.Op {
		case "call":
			next++
			p := r.start(st.Kind, next)
			all = append(all, p)
			trace = append(trace, fmt.Sprintf("call %s m%#x", st.Kind, next))
			if dead {
				classes["call_after_failure"] = true
				if !p.wait(bound) {
					return fail("call %s issued after the connection failed is still blocked after %v", st.Kind, bound)
				}
				if p.res.err == nil {
					return fail("call %s issued after the connection failed returned success", st.Kind)
				}
				continue
			}
			if v := absorb(); v != "" {
				return fail("%s", v)
			}
			if p.finished && !uncertain {
				return fail("call %s returned (err=%v) before the server answered it", st.Kind, p.res.err)
			}
		case "reply":
			if dead || len(held) == 0 {
				continue
			}
			i := st.Which % len(held)
			p := held[i]
			held = append(held[:i], held[i+1:]...)
			if p.finished && !p.abandoned {
				continue
			}
			if p.abandoned {
				// the late reply to a call its caller has given up on: must not disturb anybody
				classes["late_reply_to_cancelled_call"] = true
			}
			var m *refwire.Msg
			switch st.Variant {
			case "good":
				m = goodReply(p.kind, p.tag, p.marker)
			case "rerror":
				m = &refwire.Msg{Kind: refwire.Rerror, Tag: p.tag, Ename: harn.B("nope")}
			case "wrongR":
				k := replyKind[callKinds[(indexOf(p.kind)+1+st.K)%len(callKinds)]]
				if k == replyKind[p.kind] {
					k = refwire.Rflush
				}
				m = &refwire.Msg{Kind: k, Tag: p.tag}
				classes["wrong_type_reply"] = true
				pendingAtMisbehaviour = true
			case "tkind":
				m = &refwire.Msg{Kind: []uint8{refwire.Tread, refwire.Tversion, refwire.Tflush, refwire.Twalk}[st.K%4], Tag: p.tag, Count: 0xFFFFFFFF}
				classes["t_message_as_reply"] = true
				pendingAtMisbehaviour = true
			}
			trace = append(trace, fmt.Sprintf("reply(%s) to m%#x tag %d with %s", st.Variant, p.marker, p.tag, refwire.KindName[m.Kind]))
			send(refwire.Frame(m))
			lastAnswered, haveAnswered = p.tag, true
			if p.abandoned {
				continue
			}
			if !p.wait(bound) {
				return fail("call %s (marker %#x) did not return within %v after a %s reply", p.kind, p.marker, bound, st.Variant)
			}
			switch st.Variant {
			case "good":
				if uncertain && p.res.err != nil {
					break
				}
				if p.res.err != nil {
					return fail("call %s (marker %#x) returned %v although it was answered correctly", p.kind, p.marker, p.res.err)
				}
				if p.res.has && p.res.marker != p.marker {
					return fail("call %s (marker %#x) returned a result carrying marker %#x", p.kind, p.marker, p.res.marker)
				}
			default:
				if p.res.err == nil {
					return fail("call %s (marker %#x) returned success for a %s reply (%s)", p.kind, p.marker, st.Variant, refwire.KindName[m.Kind])
				}
			}
		case "stray":
			if dead {
				continue
			}
			var tag uint16
			switch st.Variant {
			case "unknown":
				tag = 0x7000 + uint16(st.Which)
			case "notag":
				tag = 0xFFFF
			case "repeat":
				if !haveAnswered {
					continue
				}
				tag = lastAnswered
				inUse := false
				for _, p := range held {
					if p.tag == tag {
						inUse = true
					}
				}
				if inUse {
					continue
				}
			}
			if livePending() > 0 {
				pendingAtMisbehaviour = true
			}
			m := &refwire.Msg{Kind: []uint8{refwire.Rclunk, refwire.Rerror, refwire.Rread, refwire.Tclunk}[st.K%4], Tag: tag, Ename: harn.B("stray")}
			trace = append(trace, fmt.Sprintf("stray %s on %s tag %d", refwire.KindName[m.Kind], st.Variant, tag))
			send(refwire.Frame(m))
			uncertain = true
			classes["stray_"+st.Variant] = true
		case "malformed":
			if dead {
				continue
			}
			if livePending() > 0 {
				pendingAtMisbehaviour = true
			}
			var raw []byte
			switch st.Variant {
			case "badprefix":
				raw = make([]byte, 8)
				binary.LittleEndian.PutUint32(raw, uint32(st.K))
			case "oversize":
				body := make([]byte, int(r.msize)+st.K*7+1)
				body[0] = refwire.Rread
				raw = refwire.FrameRaw(body)
			case "garbage":
				raw = refwire.FrameRaw([]byte{0xF0 + byte(st.K), 1, 2, 3, 4, 5, 6, 7})
			case "shortbody":
				full := refwire.Encode(&refwire.Msg{Kind: refwire.Rstat, Tag: 1})
				raw = refwire.FrameRaw(full[:len(full)/2])
			case "type106":
				raw = refwire.FrameRaw([]byte{106, 0, 0, 0, 0})
			case "emptybody":
				raw = refwire.FrameRaw(nil)
			}
			trace = append(trace, "malformed "+st.Variant)
			send(raw)
			classes["malformed_"+st.Variant] = true
			// a frame that cannot be understood may be skipped or may end the session; an
			// impossible length prefix desynchronises the stream for good
			uncertain = true
		case "deadlinecall":
			// a call whose own context carries a deadline that is already over, or over before
			// anybody answers: it must return promptly with an error and leave the session
			// usable for everybody else.  (Only on connections where a write cannot block:
			// a deadline expiring in the middle of a blocked write is the known finding D17.)
			if dead || c.Rendezvous {
				continue
			}
			next++
			var dctx context.Context
			var dcancel context.CancelFunc
			switch {
			case st.Variant == "expired":
				dctx, dcancel = context.WithDeadline(context.Background(), time.Now().Add(-time.Second))
			case st.Variant == "long" && c.Honor && !usedLong:
				// long enough that the request is certainly written before it expires; the
				// harness then waits until it is over, after which calls without a deadline
				// of their own must still work on this deadline-honouring connection
				usedLong = true
				dctx, dcancel = context.WithTimeout(context.Background(), 300*time.Millisecond)
			case c.Honor:
				// a short deadline on a connection that honours it can expire between WriteFcall's
				// own check and the write: that is the known finding D17, not what is exercised here
				continue
			default:
				dctx, dcancel = context.WithTimeout(context.Background(), 300*time.Microsecond)
			}
			p := r.startCtx(st.Kind, next, dctx, dcancel)
			p.abandoned = true
			all = append(all, p)
			trace = append(trace, fmt.Sprintf("call %s m%#x with %s deadline", st.Kind, next, st.Variant))
			if !p.wait(bound) {
				return fail("call %s with an %s deadline of its own did not return within %v", st.Kind, st.Variant, bound)
			}
			if p.res.err == nil {
				return fail("call %s with an %s deadline returned success although nobody answered it", st.Kind, st.Variant)
			}
			time.Sleep(500 * time.Microsecond) // let the deadline pass for good
			if st.Variant == "long" {
				classes["own_deadline_long_on_honouring_conn"] = true
			}
			// its request may or may not have reached the server
			for deadline := time.Now().Add(2 * time.Millisecond); time.Now().Before(deadline); {
				f, ok, _ := r.srv.Next(time.Millisecond)
				if ok && f.Msg != nil {
					if mk, okm := requestMarker(f.Msg); okm && mk == p.marker {
						p.seen, p.tag = true, f.Msg.Tag
						held = append(held, p)
						break
					}
				}
			}
			classes["own_deadline_"+st.Variant] = true
		case "cancelcall":
			if dead {
				continue
			}
			var cands []*pending
			for _, p := range held {
				if !p.finished && !p.abandoned {
					cands = append(cands, p)
				}
			}
			if len(cands) == 0 {
				continue
			}
			p := cands[st.Which%len(cands)]
			trace = append(trace, fmt.Sprintf("cancel m%#x", p.marker))
			p.cancel()
			p.abandoned = true
			if !p.wait(bound) {
				return fail("call %s (marker %#x) did not return within %v after its own context was cancelled", p.kind, p.marker, bound)
			}
			if !uncertain && !errors.Is(p.res.err, context.Canceled) {
				return fail("cancelled call %s returned err=%v, want context.Canceled", p.kind, p.res.err)
			}
			if p.res.err == nil {
				return fail("cancelled call %s returned success without a reply", p.kind)
			}
			classes["per_call_cancel"] = true
		case "fault":
			if dead {
				continue
			}
			if livePending() > 0 {
				pendingAtMisbehaviour = true
				classes["fault_with_pending_calls"] = true
			}
			trace = append(trace, "fault "+st.Variant)
			switch st.Variant {
			case "close":
				r.srvEnd.Close()
			case "ioerr":
				r.cli.FailReadNow(memconn.ErrInjected)
				r.cli.FailWriteNow(memconn.ErrInjected)
			case "neterr":
				// a permanent failure reported as a net.Error (what a TCP reset looks like)
				r.cli.FailReadNow(memconn.ErrReset)
				r.cli.FailWriteNow(memconn.ErrReset)
			case "localclose":
				r.cli.Close()
			case "ctxcancel":
				r.cancel()
			}
			dead = true
			classes["fault_"+st.Variant] = true
			if x := allFail("the connection failed (" + st.Variant + ")"); x != nil {
				return *x
			}
		}
	}
	// whatever state the session is in: closing the connection must release every caller
	if !dead {
		trace = append(trace, "final close")
		if livePending() > 0 {
			classes["fault_with_pending_calls"] = true
		}
		r.srvEnd.Close()
		if x := allFail("the peer closed the connection"); x != nil {
			return *x
		}
		next++
		p := r.start("clunk", next)
		if !p.wait(bound) {
			return fail("a call issued after the peer closed the connection is still blocked after %v", bound)
		}
		if p.res.err == nil {
			return fail("a call issued after the peer closed the connection returned success")
		}
	}
	res := harn.Result{NonTrivial: pendingAtMisbehaviour}
	for k := range classes {
		res.Classes = append(res.Classes, k)
	}
	return res
}

func p9pFid(i int) p9p.Fid { return p9p.Fid(i) }

func indexOf(kind string) int {
	for i, k := range callKinds {
		if k == kind {
			return i
		}
	}
	return 0
}

// ---- known finding D17: a per-call *deadline* that expires while the request is
// being written poisons the session for every other call

type DeadlineCase struct {
	DeadlineUs int // the victim call's own deadline
	Later      int // further calls issued afterwards (no deadline of their own)
}

func RunWriteDeadline(c DeadlineCase) harn.Result {
	r, err := newRig(true, 0) // rendezvous: a write blocks while the peer is not reading
	if err != nil {
		return harn.Fail("session setup failed: %v", err)
	}
	defer r.close()
	res := harn.Result{NonTrivial: true, Classes: []string{"d17_probe"}}
	r.srv.Pause()
	// the peer's reader is already waiting inside a Read and will take one more frame
	// before it notices the pause: feed it a throw-away call that is then abandoned
	{
		tctx, tcancel := context.WithCancel(context.Background())
		tdone := make(chan error, 1)
		go func() { tdone <- r.sess.Clunk(tctx, 6) }()
		time.Sleep(2 * time.Millisecond)
		tcancel()
		<-tdone
	}
	ctx, cancel := context.WithTimeout(context.Background(), time.Duration(c.DeadlineUs)*time.Microsecond)
	defer cancel()
	t0 := time.Now()
	verr := r.sess.Clunk(ctx, 7)
	if verr == nil {
		return harn.Fail("a call whose request nobody read returned success")
	}
	if d := time.Since(t0); d > bound {
		return harn.Fail("a call with a %dµs deadline returned only after %v", c.DeadlineUs, d)
	}
	r.srv.Resume()
	// serve whatever arrives correctly from now on
	stop := make(chan struct{})
	defer close(stop)
	go func() {
		for {
			f, ok, err := r.srv.Next(50 * time.Millisecond)
			if !ok {
				if err != nil {
					return
				}
				select {
				case <-stop:
					return
				default:
					continue
				}
			}
			if f.Msg != nil && f.Msg.Kind == refwire.Tclunk {
				r.srv.Send(&refwire.Msg{Kind: refwire.Rclunk, Tag: f.Msg.Tag})
			}
		}
	}()
	for i := 0; i < c.Later; i++ {
		cctx, ccancel := context.WithCancel(context.Background())
		done := make(chan error, 1)
		go func() { done <- r.sess.Clunk(cctx, p9pFid(100+i)) }()
		var lerr error
		select {
		case lerr = <-done:
		case <-time.After(bound):
			ccancel()
			res.Known = append(res.Known, "D17-write-deadline-poisons-session")
			return res
		}
		ccancel()
		if lerr != nil {
			// the earlier call's expired deadline must not disturb this one: on the pinned
			// tree the buffered writer keeps the timeout error for ever / a partial frame is on the wire
			res.Known = append(res.Known, "D17-write-deadline-poisons-session")
			return res
		}
	}
	return res
}
