package client

import (
	"testing"

	"verifharness/internal/harn"
)

func TestMain(m *testing.M) { harn.Main(m) }

func init() {
	harn.Register("C05_Mux", RunMux)
	harn.Register("C05_Wrap", RunWrap)
	harn.Register("C05_Alloc", RunAlloc)
	harn.Register("C05_Depleted", RunDepleted)
	harn.Register("C05_SlowReply", RunSlowReply)
	harn.Register("C12_Hostile", RunHostile)
	harn.Register("C12_BlockedWrite", RunBlockedWrite)
	harn.Register("C12_WriteDeadline", RunWriteDeadline)
}

func TestReplay(t *testing.T)  { harn.Replay(t) }
func TestRegress(t *testing.T) { harn.Regress(t) }

func TestC05_Mux(t *testing.T)       { harn.Check(t, "C05_Mux", GenMux, RunMux) }
func TestC05_Wrap(t *testing.T)      { harn.Check(t, "C05_Wrap", GenWrap, RunWrap) }
func TestC05_Alloc(t *testing.T)     { harn.Check(t, "C05_Alloc", GenAlloc, RunAlloc) }
func TestC05_Depleted(t *testing.T)  { harn.Check(t, "C05_Depleted", GenDepleted, RunDepleted) }
func TestC05_SlowReply(t *testing.T) { harn.Check(t, "C05_SlowReply", GenSlowReply, RunSlowReply) }
func TestC12_Hostile(t *testing.T)   { harn.Check(t, "C12_Hostile", GenHostile, RunHostile) }

func TestC12_BlockedWrite(t *testing.T) {
	harn.Check(t, "C12_BlockedWrite", GenBlockedWrite, RunBlockedWrite)
}

// TestC12_ProbeD17 exercises the known finding D17 (see known-findings.txt).
func TestC12_ProbeD17(t *testing.T) {
	for _, us := range []int{200, 1000, 5000} {
		harn.RunOne(t, "C12_WriteDeadline", DeadlineCase{DeadlineUs: us, Later: 3}, RunWriteDeadline)
	}
}
