package client

import (
	"context"
	"errors"
	"fmt"
	"strings"
	"time"

	p9p "github.com/frobnitzem/go-p9p"
	"pgregory.net/rapid"

	"verifharness/internal/harn"
	"verifharness/internal/refwire"
)

// ---- the tag pool runs dry (C05: "tags of requests still awaiting a reply - including
// calls the caller has abandoned - are pairwise distinct")

type DepletedCase struct {
	Live  int // 0..3 of the 65535 outstanding requests are live calls, the rest abandoned
	Extra int // 1..3 calls too many
}

func GenDepleted(t *rapid.T) DepletedCase {
	return DepletedCase{Live: rapid.IntRange(0, 3).Draw(t, "live"), Extra: rapid.IntRange(1, 3).Draw(t, "extra")}
}

func RunDepleted(c DepletedCase) harn.Result {
	r, err := newRig(false, 0)
	if err != nil {
		return harn.Fail("session setup failed: %v", err)
	}
	defer r.close()
	const pool = 65535
	type arrival struct {
		tag uint16
		fid uint32
	}
	arrivals := make(chan arrival, 1024)
	violation := make(chan string, 1)
	stop := make(chan struct{})
	defer close(stop)
	go func() {
		held := map[uint16]uint32{}
		for {
			f, ok, err := r.srv.Next(time.Second)
			if !ok {
				if err != nil {
					return
				}
				select {
				case <-stop:
					return
				default:
					continue
				}
			}
			bad := ""
			switch {
			case f.Msg == nil || f.Msg.Kind != refwire.Tclunk:
				bad = fmt.Sprintf("unexpected frame from the client: %v", f.Msg)
			case f.Msg.Tag == 0xFFFF:
				bad = fmt.Sprintf("request #%d carries the reserved NOTAG", f.Msg.Fid)
			default:
				if prev, dup := held[f.Msg.Tag]; dup {
					bad = fmt.Sprintf("request #%d is sent with tag %d, which still belongs to the unanswered request #%d (%d requests outstanding)", f.Msg.Fid, f.Msg.Tag, prev, len(held))
				}
			}
			if bad != "" {
				select {
				case violation <- bad:
				default:
				}
				return
			}
			held[f.Msg.Tag] = f.Msg.Fid
			arrivals <- arrival{f.Msg.Tag, f.Msg.Fid}
		}
	}()
	wait := func(what string) (arrival, string) {
		select {
		case a := <-arrivals:
			return a, ""
		case v := <-violation:
			return arrival{}, v
		case <-time.After(bound):
			return arrival{}, what + " never reached the server"
		}
	}
	type live struct {
		fid  uint32
		tag  uint16
		done chan error
	}
	var lives []live
	// fill the pool: pool-Live abandoned calls, Live live ones spread over the range
	liveAt := map[int]bool{}
	for i := 0; i < c.Live; i++ {
		liveAt[(i+1)*pool/(c.Live+1)] = true
	}
	for i := 0; i < pool; i++ {
		ctx, cancel := context.WithCancel(context.Background())
		done := make(chan error, 1)
		go func(i int) { done <- r.sess.Clunk(ctx, p9p.Fid(i)) }(i)
		a, bad := wait(fmt.Sprintf("request #%d", i))
		if bad != "" {
			cancel()
			return harn.Fail("%s (while filling the pool, %d requests outstanding)", bad, i)
		}
		if liveAt[i] {
			lives = append(lives, live{fid: uint32(i), tag: a.tag, done: done})
			defer cancel()
			continue
		}
		cancel()
		select {
		case <-done:
		case <-time.After(bound):
			return harn.Fail("abandoned call #%d did not return", i)
		}
	}
	// every tag is now in use: further calls must fail, and nothing may be sent
	for k := 0; k < c.Extra; k++ {
		done := make(chan error, 1)
		ctx, cancel := context.WithTimeout(context.Background(), bound)
		go func() { done <- r.sess.Clunk(ctx, p9p.Fid(pool+k)) }()
		select {
		case err := <-done:
			cancel()
			if err == nil {
				return harn.Fail("call #%d, made while all %d tags are awaiting replies, returned success", pool+k, pool)
			}
			if errors.Is(err, context.DeadlineExceeded) {
				return harn.Fail("call #%d, made while all %d tags are awaiting replies, did not return within %v", pool+k, pool, bound)
			}
		case v := <-violation:
			cancel()
			return harn.Fail("%s", v)
		}
		select {
		case v := <-violation:
			return harn.Fail("%s", v)
		case a := <-arrivals:
			return harn.Fail("call #%d failed locally (tag pool exhausted) but its request was sent all the same, with tag %d", pool+k, a.tag)
		case <-time.After(20 * time.Millisecond):
		}
	}
	// the live calls still get their own replies
	for _, l := range lives {
		r.srv.Send(&refwire.Msg{Kind: refwire.Rclunk, Tag: l.tag})
		select {
		case err := <-l.done:
			if err != nil {
				return harn.Fail("live call #%d (tag %d), pending while the pool ran dry, returned %v when its reply arrived", l.fid, l.tag, err)
			}
		case v := <-violation:
			return harn.Fail("%s", v)
		case <-time.After(bound):
			return harn.Fail("live call #%d (tag %d), pending while the pool ran dry, did not return within %v after its reply was sent", l.fid, l.tag, bound)
		}
	}
	return harn.Result{NonTrivial: true, Classes: []string{"pool_exhausted_live"}}
}

// ---- a reply that arrives in pieces while another call's deadline passes (C05: "each call
// returns ... with the reply that carries the tag of its own request")

type SlowReplyCase struct {
	Kinds    []string // 1..3 calls without a deadline, pending
	Cut      []int    // per such call: the reply is sent in two pieces, cut after this many bytes (mod length)
	Deadline int      // ms: one more call, issued last, has this deadline and is never answered in time
	Gap      int      // ms after that deadline at which the second pieces are sent
}

func GenSlowReply(t *rapid.T) SlowReplyCase {
	c := SlowReplyCase{Deadline: rapid.SampledFrom([]int{120, 150, 200}).Draw(t, "deadline"), Gap: rapid.IntRange(20, 60).Draw(t, "gap")}
	n := rapid.IntRange(1, 3).Draw(t, "n")
	for i := 0; i < n; i++ {
		c.Kinds = append(c.Kinds, rapid.SampledFrom(callKinds).Draw(t, "kind"))
		c.Cut = append(c.Cut, rapid.OneOf(rapid.IntRange(1, 6), rapid.IntRange(1, 60)).Draw(t, "cut"))
	}
	return c
}

func RunSlowReply(c SlowReplyCase) harn.Result {
	r, err := newRigOpt(false, true, 0) // buffered, honours read and write deadlines
	if err != nil {
		return harn.Fail("session setup failed: %v", err)
	}
	defer r.close()
	e := &muxEngine{r: r}
	d17 := func(err error) bool { return err != nil && strings.Contains(err.Error(), "i/o timeout") }
	var ps []*pending
	for i, k := range c.Kinds {
		p := r.start(k, uint32(0x3000+i))
		ps = append(ps, p)
		e.all = append(e.all, p)
		e.trace = append(e.trace, fmt.Sprintf("call %s m%#x", k, p.marker))
	}
	seenAll := func() bool {
		for _, p := range e.all {
			if !p.seen {
				return false
			}
		}
		return true
	}
	if err := e.absorb(seenAll); err != nil {
		return harn.Result{Err: err}
	}
	// the call with a deadline
	ctx, cancel := context.WithTimeout(context.Background(), time.Duration(c.Deadline)*time.Millisecond)
	defer cancel()
	start := time.Now()
	b := r.startCtx("stat", 0x3100, ctx, cancel)
	e.all = append(e.all, b)
	e.trace = append(e.trace, fmt.Sprintf("call stat m%#x with a %d ms deadline (never answered in time)", b.marker, c.Deadline))
	if err := e.absorb(seenAll); err != nil {
		if time.Since(start) > time.Duration(c.Deadline)*time.Millisecond {
			return harn.Result{Classes: []string{"inconclusive_slow_machine"}}
		}
		return harn.Result{Err: err}
	}
	// first pieces now, second pieces after the deadline has passed
	p0 := ps[0]
	frame := refwire.Frame(goodReply(p0.kind, p0.tag, p0.marker))
	cut := 1 + c.Cut[0]%(len(frame)-1)
	r.srv.SendRaw(frame[:cut])
	e.trace = append(e.trace, fmt.Sprintf("first %d of %d bytes of the reply to m%#x", cut, len(frame), p0.marker))
	time.Sleep(time.Until(start.Add(time.Duration(c.Deadline+c.Gap) * time.Millisecond)))
	r.srv.SendRaw(frame[cut:])
	e.trace = append(e.trace, fmt.Sprintf("rest of that reply, %d ms after the other call's deadline", c.Gap))
	for _, p := range ps[1:] {
		r.srv.Send(goodReply(p.kind, p.tag, p.marker))
	}
	if !b.wait(bound) {
		return harn.Result{Err: e.fail("the call with the deadline did not return within %v", bound)}
	}
	for _, p := range ps {
		if !p.wait(bound) {
			return harn.Result{Err: e.fail("call %s (marker %#x, tag %d) did not return within %v after its reply - sent in two pieces, the second %d ms after another call's deadline - was complete", p.kind, p.marker, p.tag, bound, c.Gap)}
		}
		if d17(p.res.err) {
			return harn.Result{Classes: []string{"d17_suspected"}}
		}
		if err := e.checkReturn(p, false); err != nil {
			return harn.Result{Err: err}
		}
	}
	// the session still works
	after := r.start("clunk", 0x3200)
	e.all = append(e.all, after)
	if err := e.absorb(seenAll); err != nil {
		return harn.Result{Err: err}
	}
	r.srv.Send(goodReply("clunk", after.tag, after.marker))
	if !after.wait(bound) {
		return harn.Result{Err: e.fail("a call made afterwards did not return within %v", bound)}
	}
	if d17(after.res.err) {
		return harn.Result{Classes: []string{"d17_suspected"}}
	}
	if after.res.err != nil {
		return harn.Result{Err: e.fail("a call made afterwards failed: %v", after.res.err)}
	}
	return harn.Result{NonTrivial: true, Classes: []string{"reply_in_pieces_across_deadline"}}
}

// ---- C12: "a call whose own context ends returns promptly without disturbing other calls" —
// also while the transport is busy: its one loop is blocked writing another call's request to
// a peer that has stopped reading (zero-buffer connection)

type BlockedWriteCase struct {
	Pending []string // 1..3 calls that were sent and are awaiting replies
	Victim  int      // which of them is cancelled
	Blocked string   // the call whose request cannot be written
}

func GenBlockedWrite(t *rapid.T) BlockedWriteCase {
	c := BlockedWriteCase{Blocked: rapid.SampledFrom(callKinds).Draw(t, "blocked")}
	n := rapid.IntRange(1, 3).Draw(t, "n")
	for i := 0; i < n; i++ {
		c.Pending = append(c.Pending, rapid.SampledFrom(callKinds).Draw(t, "kind"))
	}
	c.Victim = rapid.IntRange(0, n-1).Draw(t, "victim")
	return c
}

func RunBlockedWrite(c BlockedWriteCase) harn.Result {
	r, err := newRig(true, 0)
	if err != nil {
		return harn.Fail("session setup failed: %v", err)
	}
	defer r.close()
	e := &muxEngine{r: r}
	var ps []*pending
	for i, k := range c.Pending {
		p := r.start(k, uint32(0x4000+i))
		ps = append(ps, p)
		e.all = append(e.all, p)
		e.trace = append(e.trace, fmt.Sprintf("call %s m%#x", k, p.marker))
	}
	seenAll := func() bool {
		for _, p := range e.all {
			if !p.seen {
				return false
			}
		}
		return true
	}
	if err := e.absorb(seenAll); err != nil {
		return harn.Result{Err: err}
	}
	r.srv.Pause() // the peer stops reading
	e.trace = append(e.trace, "server stops reading")
	// the peer's reader may already sit in a Read: the first further request is still taken, the second cannot be written
	first := r.start("clunk", 0x40ff)
	time.Sleep(time.Millisecond)
	blocked := r.start(c.Blocked, 0x4100)
	e.trace = append(e.trace, fmt.Sprintf("call clunk m%#x; call %s m%#x (its request cannot be written)", first.marker, c.Blocked, blocked.marker))
	time.Sleep(2 * time.Millisecond)
	v := ps[c.Victim]
	e.trace = append(e.trace, fmt.Sprintf("cancel m%#x", v.marker))
	t0 := time.Now()
	v.cancel()
	if !v.wait(5 * time.Second) {
		return harn.Result{Err: e.fail("call %s (marker %#x), pending, did not return within 5s after its context was cancelled while the transport was writing another call's request to a peer that is not reading", v.kind, v.marker)}
	}
	took := time.Since(t0)
	if !errors.Is(v.res.err, context.Canceled) {
		return harn.Result{Err: e.fail("cancelled call returned err=%v", v.res.err)}
	}
	// the peer reads again: everything else completes
	r.srv.Resume()
	e.all = append(e.all, first, blocked)
	if err := e.absorb(seenAll); err != nil {
		return harn.Result{Err: err}
	}
	for _, p := range append(ps, first, blocked) {
		if p == v {
			continue
		}
		r.srv.Send(goodReply(p.kind, p.tag, p.marker))
		if err := e.checkReturn(p, false); err != nil {
			return harn.Result{Err: err}
		}
	}
	res := harn.Result{NonTrivial: true, Classes: []string{"cancel_while_transport_blocked_in_write"}}
	if took > time.Second {
		res.Classes = append(res.Classes, "slow_cancel")
	}
	return res
}
