// Package client decides C05 (the client hands every reply to exactly the
// call that issued the request; tags of outstanding requests are distinct)
// and C12 (client calls never hang; the client survives a misbehaving peer)
// against the real p9p.CSession, with a scripted raw 9P server on the other
// end of an in-memory connection.  Built with the race detector.
package client

import (
	"context"
	"encoding/binary"
	"fmt"
	"io"
	"strings"
	"time"

	p9p "github.com/frobnitzem/go-p9p"

	"verifharness/internal/harn"
	"verifharness/internal/memconn"
	"verifharness/internal/peer"
	"verifharness/internal/refwire"
)

const bound = 10 * time.Second

// rig is a client session connected to a scripted server.
type rig struct {
	sess   p9p.Session
	srv    *peer.Peer
	cli    *memconn.End
	srvEnd *memconn.End
	ctx    context.Context
	cancel context.CancelFunc
	msize  uint32
}

func newRig(rendezvous bool, msize uint32) (*rig, error) { return newRigOpt(rendezvous, false, msize) }

func newRigOpt(rendezvous, honorDeadlines bool, msize uint32) (*rig, error) {
	a, b := memconn.NewPair(memconn.Options{Rendezvous: rendezvous, HonorDeadlines: honorDeadlines})
	ctx, cancel := context.WithCancel(context.Background())
	r := &rig{cli: a, srvEnd: b, ctx: ctx, cancel: cancel, msize: msize}
	r.srv = peer.New(b)
	type res struct {
		s   p9p.Session
		err error
	}
	ch := make(chan res, 1)
	go func() {
		s, err := p9p.CSession(ctx, a)
		ch <- res{s, err}
	}()
	f, ok, err := r.srv.Next(bound)
	if !ok || f.Msg == nil || f.Msg.Kind != refwire.Tversion {
		r.close()
		return nil, fmt.Errorf("no Tversion from the client: %v %v", f.Msg, err)
	}
	if msize == 0 || msize > f.Msg.MSize {
		msize = f.Msg.MSize
	}
	r.msize = msize
	r.srv.Send(&refwire.Msg{Kind: refwire.Rversion, Tag: f.Msg.Tag, MSize: msize, Version: harn.B("9P2000")})
	select {
	case x := <-ch:
		if x.err != nil {
			r.close()
			return nil, x.err
		}
		r.sess = x.s
	case <-time.After(bound):
		r.close()
		return nil, fmt.Errorf("CSession did not return")
	}
	return r, nil
}

func (r *rig) close() {
	r.cancel()
	r.cli.Close()
	r.srvEnd.Close()
}

// Call kinds: every Session method, with the marker carried in the fid.
var callKinds = []string{"stat", "open", "clunk", "read", "write", "walk", "attach", "create", "remove", "wstat", "auth"}

var replyKind = map[string]uint8{"stat": refwire.Rstat, "open": refwire.Ropen, "clunk": refwire.Rclunk, "read": refwire.Rread, "write": refwire.Rwrite,
	"walk": refwire.Rwalk, "bigwalk": refwire.Rwalk, "attach": refwire.Rattach, "create": refwire.Rcreate, "remove": refwire.Rremove, "wstat": refwire.Rwstat, "auth": refwire.Rauth}
var requestKind = map[string]uint8{"stat": refwire.Tstat, "open": refwire.Topen, "clunk": refwire.Tclunk, "read": refwire.Tread, "write": refwire.Twrite,
	"walk": refwire.Twalk, "bigwalk": refwire.Twalk, "attach": refwire.Tattach, "create": refwire.Tcreate, "remove": refwire.Tremove, "wstat": refwire.Twstat, "auth": refwire.Tauth}

type callResult struct {
	err    error
	marker uint32 // marker recovered from the result, if the kind carries one
	has    bool
}

type pending struct {
	kind      string
	marker    uint32
	cancel    context.CancelFunc
	done      chan callResult
	tag       uint16 // as seen by the server
	seen      bool   // the server has received the request
	answered  bool
	abandoned bool
	finished  bool
	local     bool // expected to fail before anything is written
	arrived   bool // local: the request showed up on the wire all the same
	errText   string
	res       callResult
}

// start issues the call on its own goroutine.
func (r *rig) start(kind string, marker uint32) *pending {
	ctx, cancel := context.WithCancel(context.Background())
	return r.startCtx(kind, marker, ctx, cancel)
}

// startCtx issues the call under the given context.
func (r *rig) startCtx(kind string, marker uint32, ctx context.Context, cancel context.CancelFunc) *pending {
	p := &pending{kind: kind, marker: marker, cancel: cancel, done: make(chan callResult, 1)}
	s := r.sess
	fid := p9p.Fid(marker)
	go func() {
		var cr callResult
		switch kind {
		case "stat":
			d, err := s.Stat(ctx, fid)
			cr = callResult{err: err, marker: uint32(d.Length), has: true}
		case "open":
			_, io, err := s.Open(ctx, fid, p9p.OREAD)
			cr = callResult{err: err, marker: io, has: true}
		case "clunk":
			cr = callResult{err: s.Clunk(ctx, fid)}
		case "read":
			buf := make([]byte, 8)
			n, err := s.Read(ctx, fid, buf, 0)
			if n >= 4 {
				cr = callResult{err: err, marker: binary.LittleEndian.Uint32(buf), has: true}
			} else {
				cr = callResult{err: err}
				if err == nil {
					cr.err = fmt.Errorf("short read result n=%d", n)
				}
			}
		case "write":
			n, err := s.Write(ctx, fid, nil, 0)
			cr = callResult{err: err, marker: uint32(n), has: true}
		case "walk":
			q, err := s.Walk(ctx, fid, fid+1, "x")
			cr = callResult{err: err}
			if err == nil && len(q) == 1 {
				cr.marker, cr.has = q[0].Version, true
			} else if err == nil {
				cr.err = fmt.Errorf("walk returned %d qids", len(q))
			}
		case "bigwalk":
			names := make([]string, 16)
			for i := range names {
				names[i] = strings.Repeat("w", 5000)
			}
			_, err := s.Walk(ctx, fid, fid+1, names...)
			cr = callResult{err: err}
		case "attach":
			q, err := s.Attach(ctx, fid, p9p.NOFID, "u", "")
			cr = callResult{err: err, marker: q.Version, has: true}
		case "create":
			_, io, err := s.Create(ctx, fid, "n", 0644, p9p.OREAD)
			cr = callResult{err: err, marker: io, has: true}
		case "remove":
			cr = callResult{err: s.Remove(ctx, fid)}
		case "wstat":
			cr = callResult{err: s.WStat(ctx, fid, p9p.Dir{})}
		case "auth":
			q, err := s.Auth(ctx, fid, "u", "")
			cr = callResult{err: err, marker: q.Version, has: true}
		}
		p.done <- cr
	}()
	return p
}

// goodReply builds the correctly typed reply carrying the marker.
func goodReply(kind string, tag uint16, marker uint32) *refwire.Msg {
	m := &refwire.Msg{Kind: replyKind[kind], Tag: tag}
	switch kind {
	case "stat":
		m.Stat.Length = uint64(marker)
	case "open", "create":
		m.IOUnit = marker
	case "read":
		d := make([]byte, 4)
		binary.LittleEndian.PutUint32(d, marker)
		m.Data = d
	case "write":
		m.Count = marker
	case "walk":
		m.Qids = []refwire.Q{{Version: marker}}
	case "attach", "auth":
		m.Qid.Version = marker
	}
	return m
}

func requestMarker(m *refwire.Msg) (uint32, bool) {
	switch m.Kind {
	case refwire.Tauth:
		return m.Afid, true
	case refwire.Tstat, refwire.Topen, refwire.Tclunk, refwire.Tread, refwire.Twrite, refwire.Twalk, refwire.Tattach, refwire.Tcreate, refwire.Tremove, refwire.Twstat:
		return m.Fid, true
	}
	return 0, false
}

// wait waits for the call to return.
func (p *pending) wait(d time.Duration) bool {
	if p.finished {
		return true
	}
	select {
	case p.res = <-p.done:
		p.finished = true
		return true
	case <-time.After(d):
		return false
	}
}

var _ = io.EOF
