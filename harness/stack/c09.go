package stack

import (
	"context"
	"errors"
	"fmt"
	"io"
	"reflect"
	"strings"
	"sync"
	"time"

	p9p "github.com/frobnitzem/go-p9p"
	"pgregory.net/rapid"

	"verifharness/internal/gen"
	"verifharness/internal/harn"
	"verifharness/internal/memconn"
	"verifharness/internal/refwire"
	"verifharness/internal/stackutil"
)

// CallSpec is one Session call with its arguments and what S will return.
type CallSpec struct {
	Method string // auth attach clunk remove walk read write open create stat wstat
	Fid    uint32
	Fid2   uint32    `json:",omitempty"` // afid / newfid
	S1     harn.B    `json:",omitempty"` // uname / name
	S2     harn.B    `json:",omitempty"` // aname
	Names  []harn.B  `json:",omitempty"`
	Offset int64     `json:",omitempty"`
	Len    int       `json:",omitempty"` // read: buffer length; write: data length
	Mode   uint8     `json:",omitempty"`
	Perm   uint32    `json:",omitempty"`
	Dir    refwire.D `json:",omitempty"`
	DirNs  int       `json:",omitempty"` // sub-second part added to the Dir's times (must be dropped on the wire)

	// what S returns
	ErrText  string    `json:",omitempty"` // non-empty: S fails with this text
	Plain    bool      `json:",omitempty"` // … as a plain Go error (else MessageRerror)
	Wrap     bool      `json:",omitempty"` // … as a Go error that wraps a MessageRerror (fmt.Errorf("…: %w", ErrNotfound))
	ErrWithN bool      `json:",omitempty"` // read/write: S returns its error together with n > 0 (io.ReaderAt allows it); the caller must still get the error
	RQid     refwire.Q `json:",omitempty"`
	RQids    int       `json:",omitempty"` // walk: number of qids returned
	RN       int       `json:",omitempty"` // read/write: S returns min(RN, len it was given)
	RU32     uint32    `json:",omitempty"` // iounit
	RDir     refwire.D `json:",omitempty"`
}

type SeqCase struct {
	MSize      uint32 // 0: default negotiation (64 KiB)
	Rendezvous bool
	Chunk      int `json:",omitempty"` // >0: the transport hands over at most this many bytes per Read (both directions)
	Calls      []CallSpec
}

// recorder is the session S behind the server.
type recorder struct {
	mu   sync.Mutex
	next *CallSpec
	got  *received
	n    int
}

type received struct {
	Method string
	Fid    uint32
	Fid2   uint32
	S1, S2 string
	Names  []string
	Offset int64
	Len    int
	Data   []byte
	Mode   uint8
	Perm   uint32
	Dir    p9p.Dir
}

func (r *recorder) enter(g *received) *CallSpec {
	r.mu.Lock()
	defer r.mu.Unlock()
	r.got = g
	r.n++
	return r.next
}

func specErr(c *CallSpec) error {
	if c.ErrText == "" {
		return nil
	}
	if c.Wrap {
		// a protocol error annotated by the file system: the text is the annotated one
		return fmt.Errorf("%s: %w", c.ErrText, p9p.ErrNotfound)
	}
	if c.Plain {
		return errors.New(c.ErrText)
	}
	return p9p.MessageRerror{Ename: c.ErrText}
}

func (r *recorder) Auth(ctx context.Context, afid p9p.Fid, uname, aname string) (p9p.Qid, error) {
	c := r.enter(&received{Method: "auth", Fid: uint32(afid), S1: uname, S2: aname})
	return gen.ToQid(c.RQid), specErr(c)
}
func (r *recorder) Attach(ctx context.Context, fid, afid p9p.Fid, uname, aname string) (p9p.Qid, error) {
	c := r.enter(&received{Method: "attach", Fid: uint32(fid), Fid2: uint32(afid), S1: uname, S2: aname})
	return gen.ToQid(c.RQid), specErr(c)
}
func (r *recorder) Clunk(ctx context.Context, fid p9p.Fid) error {
	return specErr(r.enter(&received{Method: "clunk", Fid: uint32(fid)}))
}
func (r *recorder) Remove(ctx context.Context, fid p9p.Fid) error {
	return specErr(r.enter(&received{Method: "remove", Fid: uint32(fid)}))
}
func (r *recorder) Walk(ctx context.Context, fid, newfid p9p.Fid, names ...string) ([]p9p.Qid, error) {
	c := r.enter(&received{Method: "walk", Fid: uint32(fid), Fid2: uint32(newfid), Names: append([]string(nil), names...)})
	if err := specErr(c); err != nil {
		return nil, err
	}
	return walkQids(c), nil
}
func walkQids(c *CallSpec) []p9p.Qid {
	var out []p9p.Qid
	for i := 0; i < c.RQids; i++ {
		q := c.RQid
		q.Path += uint64(i)
		out = append(out, gen.ToQid(q))
	}
	return out
}
func readData(c *CallSpec, n int) []byte { return harn.Blob{N: n, K: byte(c.Fid)}.Bytes() }
func (r *recorder) Read(ctx context.Context, fid p9p.Fid, p []byte, offset int64) (int, error) {
	c := r.enter(&received{Method: "read", Fid: uint32(fid), Offset: offset, Len: len(p)})
	if err := specErr(c); err != nil {
		if c.ErrWithN && len(p) > 0 {
			n := 1 + c.RN%len(p)
			copy(p, readData(c, n))
			return n, err
		}
		return 0, err
	}
	n := c.RN
	if n > len(p) {
		n = len(p)
	}
	copy(p, readData(c, n))
	return n, nil
}
func (r *recorder) Write(ctx context.Context, fid p9p.Fid, p []byte, offset int64) (int, error) {
	c := r.enter(&received{Method: "write", Fid: uint32(fid), Offset: offset, Len: len(p), Data: append([]byte(nil), p...)})
	if err := specErr(c); err != nil {
		if c.ErrWithN && len(p) > 0 {
			return 1 + c.RN%len(p), err
		}
		return 0, err
	}
	n := c.RN
	if n > len(p) {
		n = len(p)
	}
	return n, nil
}
func (r *recorder) Open(ctx context.Context, fid p9p.Fid, mode p9p.Flag) (p9p.Qid, uint32, error) {
	c := r.enter(&received{Method: "open", Fid: uint32(fid), Mode: uint8(mode)})
	return gen.ToQid(c.RQid), c.RU32, specErr(c)
}
func (r *recorder) Create(ctx context.Context, parent p9p.Fid, name string, perm uint32, mode p9p.Flag) (p9p.Qid, uint32, error) {
	c := r.enter(&received{Method: "create", Fid: uint32(parent), S1: name, Perm: perm, Mode: uint8(mode)})
	return gen.ToQid(c.RQid), c.RU32, specErr(c)
}
func (r *recorder) Stat(ctx context.Context, fid p9p.Fid) (p9p.Dir, error) {
	c := r.enter(&received{Method: "stat", Fid: uint32(fid)})
	if err := specErr(c); err != nil {
		return p9p.Dir{}, err
	}
	return withNs(gen.ToDir(c.RDir, 1), c.DirNs), nil
}
func (r *recorder) WStat(ctx context.Context, fid p9p.Fid, dir p9p.Dir) error {
	return specErr(r.enter(&received{Method: "wstat", Fid: uint32(fid), Dir: dir}))
}
func (r *recorder) Version() (int, string) { return p9p.DefaultMSize, p9p.DefaultVersion }
func (r *recorder) Stop(err error) error   { return err }

func withNs(d p9p.Dir, ns int) p9p.Dir {
	d.AccessTime = d.AccessTime.Add(time.Duration(ns))
	d.ModTime = d.ModTime.Add(time.Duration(ns / 2))
	return d
}

var methods = []string{"auth", "attach", "clunk", "remove", "walk", "read", "write", "open", "create", "stat", "wstat"}

func smallStr(t *rapid.T, label string, max int) harn.B {
	b := gen.Str(gen.Sizes{}, max).Draw(t, label)
	return b
}

func i64(t *rapid.T, label string) int64 {
	return rapid.OneOf(rapid.SampledFrom([]int64{0, 1, -1, 1 << 31, 1<<32 - 1, 1 << 32, 1<<63 - 1, -1 << 63, -2}), rapid.Int64()).Draw(t, label)
}

func genCall(t *rapid.T, msize int) CallSpec {
	c := CallSpec{Method: rapid.SampledFrom(methods).Draw(t, "method"), Fid: gen.U32().Draw(t, "fid")}
	room := msize - 64 // what strings may use so that the message still fits
	if room < 0 {
		room = 0
	}
	strmax := room / 4
	if strmax > 400 {
		strmax = 400
	}
	if rapid.IntRange(0, 4).Draw(t, "fail") == 0 {
		c.ErrText = string(smallStr(t, "errtext", min(strmax, 60)))
		if c.ErrText == "" {
			c.ErrText = "e"
		}
		if rapid.IntRange(0, 3).Draw(t, "specialerr") == 0 {
			// texts with format verbs, texts the library itself uses, texts around Plan 9's ERRMAX (128)
			var cands []string
			for _, x := range []string{"progress 50%", "%s %d %v %%", "100%", "duplicate tag", "unknown tag", "short write", "closed",
				strings.Repeat("x", 127), strings.Repeat("x", 128), strings.Repeat("y", 300)} {
				if len(x) <= strmax {
					cands = append(cands, x)
				}
			}
			if len(cands) == 0 {
				cands = []string{"%"}
			}
			c.ErrText = rapid.SampledFrom(cands).Draw(t, "specialerrtext")
		}
		c.Plain = rapid.Bool().Draw(t, "plain")
		c.Wrap = rapid.IntRange(0, 3).Draw(t, "wrap") == 0
	}
	switch c.Method {
	case "auth", "attach":
		c.Fid2 = gen.U32().Draw(t, "afid")
		c.S1, c.S2 = smallStr(t, "uname", strmax), smallStr(t, "aname", strmax)
		c.RQid = gen.Qid().Draw(t, "rqid")
	case "walk":
		c.Fid2 = gen.U32().Draw(t, "newfid")
		n := rapid.OneOf(rapid.IntRange(0, 4), rapid.IntRange(0, 16), rapid.IntRange(17, 20)).Draw(t, "nnames")
		per := 6
		if n > 0 && room/(n+1) < per {
			per = room / (n + 1)
		}
		for i := 0; i < n; i++ {
			c.Names = append(c.Names, smallStr(t, "name", per))
		}
		// the reply carries 13 bytes per qid
		maxq := (msize - 9) / 13
		c.RQids = rapid.IntRange(0, min(n, maxq)).Draw(t, "rqids")
		if c.RQids < 0 {
			c.RQids = 0
		}
		c.RQid = gen.Qid().Draw(t, "rqid")
	case "read", "write":
		c.Offset = i64(t, "offset")
		clip := msize - 11
		if c.Method == "write" {
			clip = msize - 23
		}
		c.Len = rapid.OneOf(rapid.IntRange(0, 16), rapid.IntRange(clip-3, clip+3), rapid.IntRange(0, 2*msize), rapid.Just(200000)).Draw(t, "len")
		if c.Len < 0 {
			c.Len = 0
		}
		c.RN = rapid.OneOf(rapid.Just(1<<30), rapid.IntRange(0, 8), rapid.IntRange(0, c.Len+1)).Draw(t, "rn")
		c.ErrWithN = c.ErrText != "" && rapid.Bool().Draw(t, "errwithn")
	case "open":
		c.Mode = gen.U8().Draw(t, "mode")
		c.RQid, c.RU32 = gen.Qid().Draw(t, "rqid"), gen.U32().Draw(t, "iounit")
	case "create":
		c.S1 = smallStr(t, "name", strmax)
		c.Perm, c.Mode = gen.U32().Draw(t, "perm"), gen.U8().Draw(t, "mode")
		c.RQid, c.RU32 = gen.Qid().Draw(t, "rqid"), gen.U32().Draw(t, "iounit")
	case "stat", "wstat":
		d := gen.Stat(gen.Sizes{}).Draw(t, "dir")
		lim := strmax / 2
		cut := func(b harn.B) harn.B {
			if len(b) > lim {
				return b[:lim]
			}
			return b
		}
		d.Name, d.UID, d.GID, d.MUID = cut(d.Name), cut(d.UID), cut(d.GID), cut(d.MUID)
		c.DirNs = rapid.SampledFrom([]int{0, 1, 999999999, 500000000}).Draw(t, "ns")
		if c.Method == "stat" {
			c.RDir = d
		} else {
			c.Dir = d
		}
	}
	return c
}

func min(a, b int) int {
	if a < b {
		return a
	}
	return b
}

func GenSeq(t *rapid.T) SeqCase {
	c := SeqCase{Rendezvous: rapid.Bool().Draw(t, "rendezvous")}
	if rapid.IntRange(0, 3).Draw(t, "chunked") == 0 {
		c.Chunk = rapid.SampledFrom([]int{1, 2, 3, 5, 7}).Draw(t, "chunk")
	}
	c.MSize = rapid.SampledFrom([]uint32{0, 0, 128, 256, 1024, 8192, 65535}).Draw(t, "msize")
	m := int(c.MSize)
	if m == 0 {
		m = 65536
	}
	n := rapid.IntRange(1, 12).Draw(t, "ncalls")
	for i := 0; i < n; i++ {
		c.Calls = append(c.Calls, genCall(t, m))
	}
	return c
}

func strs(bs []harn.B) []string {
	out := make([]string, len(bs))
	for i, b := range bs {
		out[i] = string(b)
	}
	return out
}

type outcome struct {
	err  error
	qid  p9p.Qid
	qids []p9p.Qid
	n    int
	data []byte
	u32  uint32
	dir  p9p.Dir
}

func invoke(s p9p.Session, c *CallSpec) outcome {
	ctx, cancel := context.WithTimeout(context.Background(), 2*bound)
	defer cancel()
	var o outcome
	fid := p9p.Fid(c.Fid)
	switch c.Method {
	case "auth":
		o.qid, o.err = s.Auth(ctx, fid, string(c.S1), string(c.S2))
	case "attach":
		o.qid, o.err = s.Attach(ctx, fid, p9p.Fid(c.Fid2), string(c.S1), string(c.S2))
	case "clunk":
		o.err = s.Clunk(ctx, fid)
	case "remove":
		o.err = s.Remove(ctx, fid)
	case "walk":
		o.qids, o.err = s.Walk(ctx, fid, p9p.Fid(c.Fid2), strs(c.Names)...)
	case "read":
		buf := make([]byte, c.Len)
		o.n, o.err = s.Read(ctx, fid, buf, c.Offset)
		if o.n >= 0 && o.n <= len(buf) {
			o.data = buf[:o.n]
		}
	case "write":
		o.n, o.err = s.Write(ctx, fid, writeData(c), c.Offset)
	case "open":
		o.qid, o.u32, o.err = s.Open(ctx, fid, p9p.Flag(c.Mode))
	case "create":
		o.qid, o.u32, o.err = s.Create(ctx, fid, string(c.S1), c.Perm, p9p.Flag(c.Mode))
	case "stat":
		o.dir, o.err = s.Stat(ctx, fid)
	case "wstat":
		o.err = s.WStat(ctx, fid, withNs(gen.ToDir(c.Dir, 2), c.DirNs))
	}
	return o
}

func writeData(c *CallSpec) []byte { return harn.Blob{N: c.Len, K: byte(c.Fid >> 3)}.Bytes() }

// checkCall compares what S received and what the caller got with the spec.
func checkCall(c *CallSpec, got *received, calls int, o outcome, msize int) error {
	if c.Method == "walk" && len(c.Names) > 16 {
		if calls != 0 {
			return fmt.Errorf("walk with %d names reached the session", len(c.Names))
		}
		if o.err == nil {
			return fmt.Errorf("walk with %d names succeeded", len(c.Names))
		}
		return nil
	}
	if calls != 1 {
		return fmt.Errorf("the served session was called %d times for one %s call (caller got err=%v)", calls, c.Method, o.err)
	}
	// --- arguments delivered to S
	want := received{Method: c.Method, Fid: c.Fid}
	switch c.Method {
	case "auth":
		want.S1, want.S2 = string(c.S1), string(c.S2)
	case "attach":
		want.Fid2, want.S1, want.S2 = c.Fid2, string(c.S1), string(c.S2)
	case "walk":
		want.Fid2, want.Names = c.Fid2, strs(c.Names)
	case "read":
		want.Offset, want.Len = c.Offset, min(c.Len, msize-11)
	case "write":
		want.Offset, want.Len = c.Offset, min(c.Len, msize-23)
		want.Data = writeData(c)[:want.Len]
	case "open":
		want.Mode = c.Mode
	case "create":
		want.S1, want.Perm, want.Mode = string(c.S1), c.Perm, c.Mode
	case "wstat":
		want.Dir = gen.ToDir(c.Dir, 2)
	}
	g := *got
	if len(g.Names) == 0 {
		g.Names = nil
	}
	if len(want.Names) == 0 {
		want.Names = nil
	}
	if len(g.Data) == 0 {
		g.Data = nil
	}
	if len(want.Data) == 0 {
		want.Data = nil
	}
	gd, wd := gen.FromDir(g.Dir), gen.FromDir(want.Dir)
	g.Dir, want.Dir = p9p.Dir{}, p9p.Dir{}
	if c.Method == "wstat" && !reflect.DeepEqual(gd, wd) {
		return fmt.Errorf("wstat: session received Dir %+v, caller passed %+v (whole seconds)", gd, wd)
	}
	if !reflect.DeepEqual(g, want) {
		return fmt.Errorf("%s: session received %+v, caller passed %+v", c.Method, brief(g), brief(want))
	}
	// --- results delivered to the caller
	if c.ErrText != "" {
		re, ok := o.err.(p9p.MessageRerror)
		wantText := c.ErrText
		if c.Wrap {
			wantText = specErr(c).Error()
		}
		if !ok || re.Ename != wantText {
			return fmt.Errorf("%s: session failed with %q, caller got %v", c.Method, wantText, o.err)
		}
		// "errors by their text": what the caller prints ends with exactly the text S failed with
		if txt := o.err.Error(); !strings.HasSuffix(txt, wantText) {
			return fmt.Errorf("%s: session failed with the text %q, the caller's error reads %q", c.Method, wantText, txt)
		}
		return nil
	}
	switch c.Method {
	case "auth", "attach":
		if o.err != nil || o.qid != gen.ToQid(c.RQid) {
			return fmt.Errorf("%s: session returned qid %v, caller got %v, %v", c.Method, gen.ToQid(c.RQid), o.qid, o.err)
		}
	case "clunk", "remove", "wstat":
		if o.err != nil {
			return fmt.Errorf("%s: session succeeded, caller got %v", c.Method, o.err)
		}
	case "walk":
		w := walkQids(c)
		if o.err != nil || !reflect.DeepEqual(append([]p9p.Qid{}, o.qids...), append([]p9p.Qid{}, w...)) {
			return fmt.Errorf("walk: session returned %d qids %v, caller got %v, %v", len(w), w, o.qids, o.err)
		}
	case "read":
		n := min(c.RN, want.Len)
		if n == 0 {
			if o.n != 0 || (o.err != nil && o.err != io.EOF) {
				return fmt.Errorf("read: session returned 0 bytes, caller got n=%d err=%v", o.n, o.err)
			}
		} else if o.err != nil || o.n != n || string(o.data) != string(readData(c, n)) {
			return fmt.Errorf("read: session returned %d bytes, caller got n=%d err=%v (data equal: %v)", n, o.n, o.err, string(o.data) == string(readData(c, n)))
		}
	case "write":
		n := min(c.RN, want.Len)
		if o.n != n {
			return fmt.Errorf("write: session wrote %d of the %d bytes it was given, caller got n=%d err=%v", n, want.Len, o.n, o.err)
		}
		if n < c.Len && o.err != io.ErrShortWrite {
			return fmt.Errorf("write: %d of %d bytes written, caller got err=%v, want io.ErrShortWrite", n, c.Len, o.err)
		}
		if n == c.Len && o.err != nil {
			return fmt.Errorf("write: all %d bytes written, caller got err=%v", n, o.err)
		}
	case "open", "create":
		if o.err != nil || o.qid != gen.ToQid(c.RQid) || o.u32 != c.RU32 {
			return fmt.Errorf("%s: session returned (%v, %d), caller got (%v, %d, %v)", c.Method, gen.ToQid(c.RQid), c.RU32, o.qid, o.u32, o.err)
		}
	case "stat":
		w := refwire.CanonStat(c.RDir)
		if g := gen.FromDir(o.dir); o.err != nil || !reflect.DeepEqual(g, w) {
			return fmt.Errorf("stat: session returned %+v, caller got %+v, %v", w, g, o.err)
		}
	}
	return nil
}

func brief(r received) string {
	d := r.Data
	if len(d) > 8 {
		d = d[:8]
	}
	return fmt.Sprintf("{%s fid=%d fid2=%d s1=%q s2=%q names=%q off=%d len=%d data=%x… mode=%#x perm=%#o}", r.Method, r.Fid, r.Fid2, r.S1, r.S2, r.Names, r.Offset, r.Len, d, r.Mode, r.Perm)
}

func RunSeq(c SeqCase) harn.Result {
	rec := &recorder{}
	st, err := stackutil.Connect(p9p.SSession(rec), c.MSize, memconn.Options{Rendezvous: c.Rendezvous, ReadChunk: c.Chunk})
	if err != nil {
		return harn.Fail("session setup (msize %d) failed: %v", c.MSize, err)
	}
	defer st.Close()
	msize, _ := st.Client.Version()
	if c.MSize != 0 && msize != int(c.MSize) {
		return harn.Fail("HARNESS: negotiated %d, wanted %d", msize, c.MSize)
	}
	res := harn.Result{}
	for i := range c.Calls {
		cs := &c.Calls[i]
		rec.mu.Lock()
		rec.next, rec.got, rec.n = cs, nil, 0
		rec.mu.Unlock()
		done := make(chan outcome, 1)
		go func() { done <- invoke(st.Client, cs) }()
		var o outcome
		select {
		case o = <-done:
		case <-time.After(bound):
			return harn.Fail("call %d (%s) did not return within %v (msize %d)", i, cs.Method, bound, msize)
		}
		rec.mu.Lock()
		got, n := rec.got, rec.n
		rec.mu.Unlock()
		if err := checkCall(cs, got, n, o, msize); err != nil {
			return harn.Fail("call %d over msize %d: %v", i, msize, err)
		}
		res.Classes = append(res.Classes, "m_"+cs.Method)
		if c.Chunk > 0 {
			res.Classes = append(res.Classes, "transport_in_small_pieces")
		}
		if cs.ErrText != "" {
			res.Classes = append(res.Classes, "session_error")
		}
		if cs.ErrWithN && cs.Len > 0 {
			res.Classes = append(res.Classes, "error_with_partial_count")
		}
		if (cs.Method == "read" && cs.Len > msize-11) || (cs.Method == "write" && cs.Len > msize-23) {
			res.Classes = append(res.Classes, "clipped_to_msize")
		}
		if cs.Fid != 0 && cs.ErrText == "" {
			res.NonTrivial = true
		}
	}
	return res
}
