package stack

import (
	"context"
	"fmt"
	"io"
	"sync"
	"sync/atomic"
	"time"

	p9p "github.com/frobnitzem/go-p9p"
	"pgregory.net/rapid"

	"verifharness/internal/harn"
	"verifharness/internal/memconn"
	"verifharness/internal/stackutil"
)

// markerSession derives every result from the fid, so each caller can tell
// whether it was given its own result.
type markerSession struct {
	calls int64
	delay int // Gosched rounds before returning (varies completion order)
	pipes sync.Map // fid -> chan []byte: a Read on a pipe fid returns only what a Write on the same fid hands over
}

const slowFid = 1 << 30 // calls on fids ≥ slowFid are answered late (their callers give up first)

// Fids in [pipeFid, slowFid) behave like a rendezvous file (a pipe, a blocking device file):
// a Read returns only once a Write on the same fid arrives, and the Write returns only once a
// Read has taken its data.  The Session interface allows this (calls may block until their
// context ends), and it works when the session is called directly; so it must work when the
// session is served, which it does only if the dispatcher never makes one request on a fid
// wait for another one on the same fid.
const pipeFid = 1 << 29

func (m *markerSession) pipe(fid p9p.Fid) chan []byte {
	ch, _ := m.pipes.LoadOrStore(fid, make(chan []byte))
	return ch.(chan []byte)
}

func (m *markerSession) tick(fid p9p.Fid) {
	atomic.AddInt64(&m.calls, 1)
	if fid >= slowFid {
		time.Sleep(3 * time.Millisecond)
		return
	}
	for i := 0; i < int(fid)%(m.delay+1); i++ {
		time.Sleep(time.Microsecond)
	}
}
func mErr(fid p9p.Fid) error {
	if fid%7 == 3 {
		return p9p.MessageRerror{Ename: fmt.Sprintf("err-%d", fid)}
	}
	return nil
}
func (m *markerSession) Auth(ctx context.Context, afid p9p.Fid, u, a string) (p9p.Qid, error) {
	m.tick(afid)
	return p9p.Qid{Path: uint64(afid)}, mErr(afid)
}
func (m *markerSession) Attach(ctx context.Context, fid, afid p9p.Fid, u, a string) (p9p.Qid, error) {
	m.tick(fid)
	return p9p.Qid{Path: uint64(fid), Version: uint32(afid)}, mErr(fid)
}
func (m *markerSession) Clunk(ctx context.Context, fid p9p.Fid) error  { m.tick(fid); return mErr(fid) }
func (m *markerSession) Remove(ctx context.Context, fid p9p.Fid) error { m.tick(fid); return mErr(fid) }
func (m *markerSession) Walk(ctx context.Context, fid, newfid p9p.Fid, names ...string) ([]p9p.Qid, error) {
	m.tick(fid)
	if err := mErr(fid); err != nil {
		return nil, err
	}
	return []p9p.Qid{{Path: uint64(fid), Version: uint32(newfid)}}, nil
}
func (m *markerSession) Read(ctx context.Context, fid p9p.Fid, p []byte, off int64) (int, error) {
	m.tick(fid)
	if fid >= pipeFid && fid < slowFid {
		select {
		case d := <-m.pipe(fid):
			atomic.AddInt64(&m.calls, 1)
			return copy(p, d), nil
		case <-ctx.Done():
			return 0, ctx.Err()
		}
	}
	if err := mErr(fid); err != nil {
		return 0, err
	}
	for i := range p {
		p[i] = byte(int(fid) + i)
	}
	return len(p), nil
}
func (m *markerSession) Write(ctx context.Context, fid p9p.Fid, p []byte, off int64) (int, error) {
	m.tick(fid)
	if err := mErr(fid); err != nil {
		return 0, err
	}
	for i := range p {
		if p[i] != byte(int(fid)*3+i) {
			return 0, p9p.MessageRerror{Ename: "write data was not the caller's"}
		}
	}
	if fid >= pipeFid && fid < slowFid {
		select {
		case m.pipe(fid) <- append([]byte(nil), p...):
			atomic.AddInt64(&m.calls, 1)
			return len(p), nil
		case <-ctx.Done():
			return 0, ctx.Err()
		}
	}
	return len(p), nil
}
func (m *markerSession) Open(ctx context.Context, fid p9p.Fid, mode p9p.Flag) (p9p.Qid, uint32, error) {
	m.tick(fid)
	return p9p.Qid{Path: uint64(fid)}, uint32(fid) + uint32(mode), mErr(fid)
}
func (m *markerSession) Create(ctx context.Context, fid p9p.Fid, name string, perm uint32, mode p9p.Flag) (p9p.Qid, uint32, error) {
	m.tick(fid)
	return p9p.Qid{Path: uint64(fid)}, perm, mErr(fid)
}
func (m *markerSession) Stat(ctx context.Context, fid p9p.Fid) (p9p.Dir, error) {
	m.tick(fid)
	return p9p.Dir{Length: uint64(fid), Name: fmt.Sprint(fid), AccessTime: time.Unix(1, 0), ModTime: time.Unix(2, 0)}, mErr(fid)
}
func (m *markerSession) WStat(ctx context.Context, fid p9p.Fid, d p9p.Dir) error {
	m.tick(fid)
	if d.Length != uint64(fid) {
		return p9p.MessageRerror{Ename: "wstat dir was not the caller's"}
	}
	return mErr(fid)
}
func (m *markerSession) Version() (int, string) { return p9p.DefaultMSize, p9p.DefaultVersion }
func (m *markerSession) Stop(err error) error   { return err }

type ConcCase struct {
	Rendezvous bool
	Callers    int
	Each       int
	Delay      int
	Probe      bool // the known-finding probe: many callers over a rendezvous connection
	Quitter    bool // an extra caller whose calls are abandoned (context timeout) before the session answers
	Pipes      int  // pairs of callers where one reads a fid and the other writes it; the read returns only what the write hands over
}

func GenConc(t *rapid.T) ConcCase {
	c := ConcCase{Rendezvous: rapid.Bool().Draw(t, "rendezvous"), Each: rapid.IntRange(1, 12).Draw(t, "each"), Delay: rapid.IntRange(0, 5).Draw(t, "delay")}
	if c.Rendezvous {
		// ≥5 concurrent callers over a zero-buffer connection is the known finding D14; stay below it here
		c.Callers = rapid.IntRange(2, 4).Draw(t, "callers")
	} else {
		c.Callers = rapid.IntRange(2, 32).Draw(t, "callers")
	}
	c.Quitter = rapid.Bool().Draw(t, "quitter")
	c.Pipes = rapid.IntRange(0, 3).Draw(t, "pipes")
	if c.Rendezvous {
		// each pair keeps two more requests in flight (D14 again)
		if c.Pipes > 1 {
			c.Pipes = 1
		}
		if c.Pipes == 1 {
			c.Callers = 2
		}
	}
	if c.Rendezvous {
		// every abandoned call leaves a request in flight at the server, so the abandoning
		// caller alone crosses the D14 threshold (>= 5 requests in flight over a zero-buffer
		// connection): only on buffered connections
		c.Quitter = false
	}
	return c
}

// one call by method index; returns "" or what was wrong
func markerCall(s p9p.Session, ctx context.Context, k int, fid p9p.Fid) string {
	want := mErr(fid)
	checkErr := func(err error) (string, bool) {
		if want != nil {
			re, ok := err.(p9p.MessageRerror)
			if !ok || re.Ename != want.(p9p.MessageRerror).Ename {
				return fmt.Sprintf("fid %d: want error %v, got %v", fid, want, err), true
			}
			return "", true
		}
		if err != nil {
			return fmt.Sprintf("fid %d: unexpected error %v", fid, err), true
		}
		return "", false
	}
	switch k % 11 {
	case 0:
		q, err := s.Attach(ctx, fid, fid+1, "u", "a")
		if v, done := checkErr(err); done {
			return v
		}
		if q.Path != uint64(fid) || q.Version != uint32(fid+1) {
			return fmt.Sprintf("attach fid %d got qid %v", fid, q)
		}
	case 1:
		if v, done := checkErr(s.Clunk(ctx, fid)); done {
			return v
		}
	case 2:
		q, err := s.Walk(ctx, fid, fid+2, "x")
		if v, done := checkErr(err); done {
			return v
		}
		if len(q) != 1 || q[0].Path != uint64(fid) || q[0].Version != uint32(fid+2) {
			return fmt.Sprintf("walk fid %d got %v", fid, q)
		}
	case 3:
		buf := make([]byte, 1+int(fid)%40)
		n, err := s.Read(ctx, fid, buf, int64(fid))
		if v, done := checkErr(err); done {
			return v
		}
		if n != len(buf) {
			return fmt.Sprintf("read fid %d got n=%d of %d", fid, n, len(buf))
		}
		for i := range buf {
			if buf[i] != byte(int(fid)+i) {
				return fmt.Sprintf("read fid %d returned another call's data", fid)
			}
		}
	case 4:
		p := make([]byte, 1+int(fid)%40)
		for i := range p {
			p[i] = byte(int(fid)*3 + i)
		}
		n, err := s.Write(ctx, fid, p, 0)
		if v, done := checkErr(err); done {
			return v
		}
		if n != len(p) {
			return fmt.Sprintf("write fid %d got n=%d of %d", fid, n, len(p))
		}
	case 5:
		q, io, err := s.Open(ctx, fid, 2)
		if v, done := checkErr(err); done {
			return v
		}
		if q.Path != uint64(fid) || io != uint32(fid)+2 {
			return fmt.Sprintf("open fid %d got %v %d", fid, q, io)
		}
	case 6:
		q, io, err := s.Create(ctx, fid, "n", uint32(fid)^0xAAAA, 1)
		if v, done := checkErr(err); done {
			return v
		}
		if q.Path != uint64(fid) || io != uint32(fid)^0xAAAA {
			return fmt.Sprintf("create fid %d got %v %d", fid, q, io)
		}
	case 7:
		d, err := s.Stat(ctx, fid)
		if v, done := checkErr(err); done {
			return v
		}
		if d.Length != uint64(fid) || d.Name != fmt.Sprint(fid) {
			return fmt.Sprintf("stat fid %d got %v", fid, d)
		}
	case 8:
		if v, done := checkErr(s.WStat(ctx, fid, p9p.Dir{Length: uint64(fid), AccessTime: time.Unix(3, 0), ModTime: time.Unix(4, 0)})); done {
			return v
		}
	case 9:
		if v, done := checkErr(s.Remove(ctx, fid)); done {
			return v
		}
	case 10:
		q, err := s.Auth(ctx, fid, "u", "a")
		if v, done := checkErr(err); done {
			return v
		}
		if q.Path != uint64(fid) {
			return fmt.Sprintf("auth fid %d got %v", fid, q)
		}
	}
	return ""
}

const stallBound = 5 * time.Second

func RunConc(c ConcCase) harn.Result {
	ms := &markerSession{delay: c.Delay}
	st, err := stackutil.Connect(p9p.SSession(ms), 0, memconn.Options{Rendezvous: c.Rendezvous})
	if err != nil {
		return harn.Fail("session setup failed: %v", err)
	}
	defer st.Close()
	var wg sync.WaitGroup
	var mu sync.Mutex
	var wrong []string
	var slowest time.Duration
	ctx := context.Background()
	for k := 0; k < c.Callers; k++ {
		wg.Add(1)
		go func(k int) {
			defer wg.Done()
			for i := 0; i < c.Each; i++ {
				fid := p9p.Fid(1 + k*1000 + i)
				t0 := time.Now()
				v := markerCall(st.Client, ctx, k+i, fid)
				d := time.Since(t0)
				mu.Lock()
				if d > slowest {
					slowest = d
				}
				if v != "" {
					wrong = append(wrong, v)
				}
				mu.Unlock()
			}
		}(k)
	}
	// pairs of callers meeting on a pipe fid: the reader's call is in flight (blocked in the
	// session) when the writer's request arrives, or the other way round
	for j := 0; j < c.Pipes; j++ {
		fid := p9p.Fid(pipeFid + 7*j + 1) // never ≡ 3 mod 7: no marker error
		if fid%7 == 3 {
			fid++
		}
		n := 1 + int(fid)%40
		rounds := 1 + c.Each/3
		note := func(v string) {
			mu.Lock()
			wrong = append(wrong, v)
			mu.Unlock()
		}
		wg.Add(2)
		go func() { // reader
			defer wg.Done()
			for i := 0; i < rounds; i++ {
				buf := make([]byte, n)
				got, err := st.Client.Read(ctx, fid, buf, 0)
				if err != nil || got != n {
					note(fmt.Sprintf("pipe fid %d: read %d got n=%d err=%v", fid, i, got, err))
					return
				}
				for x := range buf {
					if buf[x] != byte(int(fid)*3+x) {
						note(fmt.Sprintf("pipe fid %d: read %d returned bytes the writer did not write", fid, i))
						return
					}
				}
			}
		}()
		go func(j int) { // writer; starts a little later in every other pair, so the read is in flight first
			defer wg.Done()
			if j%2 == 0 {
				time.Sleep(200 * time.Microsecond)
			}
			for i := 0; i < rounds; i++ {
				p := make([]byte, n)
				for x := range p {
					p[x] = byte(int(fid)*3 + x)
				}
				got, err := st.Client.Write(ctx, fid, p, 0)
				if err != nil || got != n {
					note(fmt.Sprintf("pipe fid %d: write %d got n=%d err=%v", fid, i, got, err))
					return
				}
			}
		}(j)
	}
	// one more caller keeps abandoning calls (its context ends before the slow session
	// answers); the late replies must not disturb anybody else
	if c.Quitter {
		wg.Add(1)
		go func() {
			defer wg.Done()
			for i := 0; i < 1+c.Each/2; i++ {
				// cancelled, not deadline-bound: a context *deadline* is also applied to the
				// connection write (see the C12 known finding D17), which is not what is
				// being exercised here
				qctx, cancel := context.WithCancel(ctx)
				tm := time.AfterFunc(300*time.Microsecond, cancel)
				err := st.Client.Clunk(qctx, p9p.Fid(slowFid+i))
				tm.Stop()
				cancel()
				if err == nil {
					// answered in time after all: fine
					continue
				}
			}
		}()
	}
	done := make(chan struct{})
	go func() { wg.Wait(); close(done) }()
	// a stall is "no call anywhere completes for stallBound", not "the whole run takes
	// long": on a loaded machine thousands of calls under the race detector may
	// legitimately need more than a few seconds in total
	stalled := false
	last, lastChange := atomic.LoadInt64(&ms.calls), time.Now()
wait:
	for {
		select {
		case <-done:
			break wait
		case <-time.After(50 * time.Millisecond):
			if n := atomic.LoadInt64(&ms.calls); n != last {
				last, lastChange = n, time.Now()
			} else if time.Since(lastChange) > stallBound {
				stalled = true
				break wait
			}
		}
	}
	res := harn.Result{NonTrivial: true}
	if c.Probe {
		res.Classes = append(res.Classes, "d14_probe")
		if stalled {
			// the wedge dissolves only through the 30 s I/O deadline; do not wait for it
			res.Known = append(res.Known, "D14-rendezvous-wedge")
			return res
		}
		mu.Lock()
		defer mu.Unlock()
		if len(wrong) > 0 {
			return harn.Fail("%d callers x %d calls over a rendezvous connection: %s", c.Callers, c.Each, wrong[0])
		}
		return res
	}
	if stalled {
		return harn.Fail("%d concurrent callers x %d calls (rendezvous=%v): no call completed for %v (%d session calls served so far)", c.Callers, c.Each, c.Rendezvous, stallBound, atomic.LoadInt64(&ms.calls))
	}
	mu.Lock()
	defer mu.Unlock()
	if len(wrong) > 0 {
		return harn.Fail("%d concurrent callers (rendezvous=%v): %s", c.Callers, c.Rendezvous, wrong[0])
	}
	if c.Quitter {
		res.Classes = append(res.Classes, "conc_with_abandoned_calls")
	}
	if c.Pipes > 0 {
		res.Classes = append(res.Classes, "conc_read_waits_for_write_on_same_fid")
	}
	if c.Rendezvous {
		res.Classes = append(res.Classes, "conc_rendezvous")
	} else {
		res.Classes = append(res.Classes, "conc_buffered")
	}
	return res
}

var _ = io.EOF
