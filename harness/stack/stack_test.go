package stack

import (
	"testing"

	"verifharness/internal/harn"
)

func TestMain(m *testing.M) { harn.Main(m) }

func init() {
	harn.Register("C10_ServerNeg", RunSrvNeg)
	harn.Register("C10_ClientNeg", RunCliNeg)
	harn.Register("C10_SessionNeg", RunSessNeg)
	harn.Register("C09_Seq", RunSeq)
	harn.Register("C09_Conc", RunConc)
}

func TestReplay(t *testing.T)  { harn.Replay(t) }
func TestRegress(t *testing.T) { harn.Regress(t) }

func TestC10_ServerNeg(t *testing.T) { harn.Check(t, "C10_ServerNeg", GenSrvNeg, RunSrvNeg) }
func TestC10_ClientNeg(t *testing.T) { harn.Check(t, "C10_ClientNeg", GenCliNeg, RunCliNeg) }
func TestC10_SessionNeg(t *testing.T) { harn.Check(t, "C10_SessionNeg", GenSessNeg, RunSessNeg) }
func TestC09_Seq(t *testing.T)       { harn.Check(t, "C09_Seq", GenSeq, RunSeq) }
func TestC09_Conc(t *testing.T)      { harn.Check(t, "C09_Conc", GenConc, RunConc) }

// TestC09_ProbeD14 exercises the known finding: many concurrent callers over a
// zero-buffer (net.Pipe-like) connection wedge the client and server loops
// until the 30 s I/O deadline.  A stall is reported through the evidence
// counters (key D14-rendezvous-wedge); any other misbehaviour is a violation.
func TestC09_ProbeD14(t *testing.T) {
	for i := 0; i < 3; i++ {
		harn.RunOne(t, "C09_Conc", ConcCase{Rendezvous: true, Callers: 16, Each: 100, Delay: i, Probe: true}, RunConc)
	}
}
