// Package stack decides C09 (a session served over a connection is
// indistinguishable from the session) and C10 (version negotiation yields one
// msize that both ends then honour) on the full client/server stack.
package stack

import (
	"context"
	"fmt"
	"strings"
	"time"

	p9p "github.com/frobnitzem/go-p9p"
	"pgregory.net/rapid"

	"verifharness/internal/harn"
	"verifharness/internal/memconn"
	"verifharness/internal/peer"
	"verifharness/internal/refwire"
	"verifharness/server"
)

const bound = 10 * time.Second

// ---- (a) real server, scripted client

type SrvNegCase struct {
	Propose    uint32
	Version    harn.B
	NotVersion bool // the first message is not a Tversion at all
	FirstKind  uint8
	Rendezvous bool
	// which handler result that cannot fit in the agreed msize is tried: 0 an Rread, 1 an error
	// whose text is longer than msize, 2 an Rstat with long names, 3 an Rwalk with too many qids
	BigReply int `json:",omitempty"`
	// Silent: the client says nothing for longer than the server's negotiation window (1 s, run
	// 100 times faster on this connection) and only then sends its first message, which is not a Tversion
	Silent bool `json:",omitempty"`
	// Reneg != 0: after the handshake the client sends a second Tversion proposing this msize
	Reneg uint32 `json:",omitempty"`
}

func genMSize(t *rapid.T, label string) uint32 {
	return rapid.OneOf(
		rapid.Uint32Range(0, 30),
		rapid.Uint32Range(0, 300),
		rapid.SampledFrom([]uint32{18, 19, 20, 22, 23, 24, 65534, 65535, 65536, 65537, 65538, 1<<31 - 1, 1 << 31, 1<<31 + 1, 1<<32 - 2, 1<<32 - 1}),
		rapid.Uint32Range(0, 70000),
		rapid.Uint32(),
	).Draw(t, label)
}

func GenSrvNeg(t *rapid.T) SrvNegCase {
	c := SrvNegCase{Propose: genMSize(t, "propose"), Rendezvous: rapid.Bool().Draw(t, "rendezvous")}
	c.Version = rapid.OneOf(rapid.Just(harn.B("9P2000")), rapid.Just(harn.B("9P2000")), rapid.SampledFrom([]harn.B{harn.B("9P2000.u"), harn.B("unknown"), nil, harn.B("9P1999"), harn.B("9p2000")}),
		rapid.Custom(func(t *rapid.T) harn.B { return harn.B(rapid.SliceOfN(rapid.Byte(), 0, 12).Draw(t, "v")) })).Draw(t, "version")
	c.BigReply = rapid.IntRange(0, 3).Draw(t, "bigreply")
	if rapid.IntRange(0, 5).Draw(t, "renegp") == 0 {
		c.Reneg = genMSize(t, "reneg")
		if c.Reneg == 0 {
			c.Reneg = 1
		}
	}
	if rapid.IntRange(0, 24).Draw(t, "silent") == 0 {
		c.Silent = true
	}
	if rapid.IntRange(0, 7).Draw(t, "notversion") == 0 {
		c.NotVersion = true
		c.FirstKind = rapid.SampledFrom([]uint8{refwire.Tattach, refwire.Tauth, refwire.Rversion, refwire.Tclunk, refwire.Tflush, refwire.Tread}).Draw(t, "firstkind")
	}
	return c
}

const serverMax = 65536

func minInt(a, b int) int {
	if a < b {
		return a
	}
	return b
}

// how far beyond msize the error text goes: from just too long for an Rerror frame to well beyond
func rapid_pad(propose uint32) int { return []int{-8, -7, 0, 1, 50}[propose%5] }

func RunSrvNeg(c SrvNegCase) harn.Result {
	a, b := memconn.NewPair(memconn.Options{Rendezvous: c.Rendezvous, HonorDeadlines: c.Silent})
	defer a.Close()
	defer b.Close()
	if c.Silent {
		b.ScaleReadDeadlines(100)
	}
	h := server.NewHandler()
	ctx, cancel := context.WithCancel(context.Background())
	defer cancel()
	served := make(chan error, 1)
	go func() { served <- p9p.ServeConn(ctx, b, h) }()
	defer func() {
		for _, inv := range h.All() {
			inv.Release(server.Outcome{ErrText: "teardown"})
		}
	}()
	p := peer.New(a)
	res := harn.Result{}
	fail := func(format string, x ...any) harn.Result {
		return harn.Fail("%s [client proposes msize %d version %q notversion=%v kind=%d]", fmt.Sprintf(format, x...), c.Propose, string(c.Version), c.NotVersion, c.FirstKind)
	}
	refused := func(why string) harn.Result {
		select {
		case err := <-served:
			if err == nil {
				return fail("ServeConn returned nil although the connection had to be refused (%s)", why)
			}
		case <-time.After(bound):
			return fail("ServeConn neither refused the connection nor served it (%s)", why)
		}
		if h.Count() != 0 || h.Stops() != 0 {
			return fail("a refused connection (%s) reached the handler: %d Handle calls, %d Stop calls", why, h.Count(), h.Stops())
		}
		res.NonTrivial = true
		res.Classes = append(res.Classes, "refused_"+why)
		return res
	}
	if c.Silent {
		time.Sleep(60 * time.Millisecond) // six negotiation windows
		go p.Send(&refwire.Msg{Kind: refwire.Tattach, Tag: 1, Fid: 1, Afid: ^uint32(0), Uname: harn.B("u")})
		time.Sleep(5 * time.Millisecond)
		return refused("silent_during_negotiation_window")
	}
	if c.NotVersion {
		m := refwire.Msg{Kind: c.FirstKind, Tag: 1, Fid: 1, Afid: ^uint32(0), Uname: harn.B("u"), Count: 5}
		p.Send(&m)
		return refused("first_message_not_version")
	}
	p.Send(&refwire.Msg{Kind: refwire.Tversion, Tag: 0xFFFF, MSize: c.Propose, Version: c.Version})
	if c.Propose < 19 {
		// cannot even carry the 19-byte Rversion
		f, ok, _ := p.Next(5 * time.Millisecond)
		if ok && len(f.Raw) > int(c.Propose) {
			return fail("server sent a %d-byte frame although the client proposed msize %d", len(f.Raw), c.Propose)
		}
		return refused("msize_too_small_for_rversion")
	}
	f, ok, err := p.Next(bound)
	if !ok {
		return fail("no Rversion: %v", err)
	}
	if f.Msg == nil || f.Msg.Kind != refwire.Rversion {
		return fail("first reply is not an Rversion: %v", f.Msg)
	}
	want := c.Propose
	if want > serverMax {
		want = serverMax
	}
	agreed := f.Msg.MSize
	if agreed != want {
		return fail("Rversion msize = %d, want min(proposal, %d) = %d", agreed, serverMax, want)
	}
	if len(f.Raw) > int(agreed) {
		return fail("the Rversion frame itself (%d bytes) exceeds the agreed msize %d", len(f.Raw), agreed)
	}
	if string(f.Msg.Version) != "9P2000" {
		return fail("Rversion carries version %q", string(f.Msg.Version))
	}
	if want < serverMax {
		res.NonTrivial = true
	}
	res.Classes = append(res.Classes, "negotiated")
	if c.Reneg != 0 && agreed >= 64 {
		// (only where an error reply fits in the agreed msize)
		// a second Tversion in mid-connection: the server may turn it down or accept it, but what
		// it answers is what both directions must honour from then on
		before := h.Count()
		p.Send(&refwire.Msg{Kind: refwire.Tversion, Tag: 0xFFFF, MSize: c.Reneg, Version: harn.B("9P2000")})
		// the server either answers it itself or hands it to the handler like any request
		var rf peer.Frame
		var ok bool
		var err error
		for waited := 0; waited < 2000; waited++ {
			if rf, ok, err = p.Next(5 * time.Millisecond); ok {
				break
			}
			if inv := h.WaitFor(before, func(i *server.Invocation) bool { return true }, time.Millisecond); inv != nil {
				inv.Release(server.Outcome{ErrText: "no renegotiation"})
				before = h.Count()
			}
		}
		switch {
		case !ok:
			return fail("no reply to a second Tversion (msize %d): %v", c.Reneg, err)
		case rf.Msg != nil && rf.Msg.Kind == refwire.Rerror:
			res.Classes = append(res.Classes, "second_tversion_refused")
		case rf.Msg != nil && rf.Msg.Kind == refwire.Rversion:
			if rf.Msg.MSize > c.Reneg || rf.Msg.MSize > serverMax {
				return fail("second Tversion proposing %d answered with msize %d", c.Reneg, rf.Msg.MSize)
			}
			if len(rf.Raw) > int(agreed) && len(rf.Raw) > int(rf.Msg.MSize) {
				return fail("the second Rversion frame (%d bytes) exceeds both the old (%d) and the new (%d) msize", len(rf.Raw), agreed, rf.Msg.MSize)
			}
			agreed = rf.Msg.MSize
			res.Classes = append(res.Classes, "second_tversion_accepted")
		default:
			return fail("second Tversion answered with %s", kindName(rf.Msg))
		}
	}
	// maximal traffic.  1. a Twrite of exactly the agreed size reaches the handler intact
	if agreed >= 24 {
		n := int(agreed) - 23
		tw := refwire.Msg{Kind: refwire.Twrite, Tag: 1, Fid: 7, Offset: 9, Blob: harn.Blob{N: n, K: 3}}
		before := h.Count()
		p.Send(&tw)
		inv := h.WaitFor(before, func(i *server.Invocation) bool { return true }, bound)
		if inv == nil {
			return fail("a Twrite frame of exactly the agreed msize %d did not reach the handler", agreed)
		}
		if inv.Msg.Kind != refwire.Twrite || len(inv.Msg.Data) != n || string(inv.Msg.Data) != string(tw.Payload()) {
			return fail("a Twrite frame of exactly the agreed msize %d reached the handler with %d data bytes (sent %d)", agreed, len(inv.Msg.Data), n)
		}
		// reply of exactly the agreed size must go out, and nothing larger
		inv.Release(server.Outcome{Msg: &refwire.Msg{Kind: refwire.Rwrite, Count: uint32(n)}})
		if rf, ok, _ := p.Next(bound); !ok || rf.Msg == nil || rf.Msg.Kind != refwire.Rwrite {
			return fail("no Rwrite after the maximal Twrite")
		}
		res.Classes = append(res.Classes, "max_twrite_delivered")
	}
	// 2. a Tread with a huge count is clamped on receipt; its maximal reply fits exactly
	if agreed >= 23 {
		before := h.Count()
		p.Send(&refwire.Msg{Kind: refwire.Tread, Tag: 2, Fid: 7, Count: 0xFFFFFFFF})
		inv := h.WaitFor(before, func(i *server.Invocation) bool { return true }, bound)
		if inv == nil {
			return fail("Tread did not reach the handler")
		}
		if int64(inv.Msg.Count) > int64(agreed)-11 {
			return fail("handler saw Tread count %d, larger than agreed msize %d - 11", inv.Msg.Count, agreed)
		}
		data := harn.Blob{N: int(inv.Msg.Count), K: 1}
		inv.Release(server.Outcome{Msg: &refwire.Msg{Kind: refwire.Rread, Blob: data}})
		rf, ok, _ := p.Next(bound)
		if !ok || rf.Msg == nil || rf.Msg.Kind != refwire.Rread {
			return fail("no Rread for a maximal read (count %d, agreed msize %d)", inv.Msg.Count, agreed)
		}
		if len(rf.Raw) > int(agreed) {
			return fail("server emitted a %d-byte Rread frame, agreed msize is %d", len(rf.Raw), agreed)
		}
		if len(rf.Msg.Data) != data.N {
			return fail("maximal Rread lost data: %d of %d bytes", len(rf.Msg.Data), data.N)
		}
		res.Classes = append(res.Classes, "max_rread_emitted")
		// a handler result that does not fit must not be emitted as an oversize frame
		before = h.Count()
		p.Send(&refwire.Msg{Kind: refwire.Tstat, Tag: 3, Fid: 7})
		if inv := h.WaitFor(before, func(i *server.Invocation) bool { return true }, bound); inv != nil {
			var out server.Outcome
			switch c.BigReply {
			case 1:
				out = server.Outcome{ErrText: strings.Repeat("e", int(agreed)+rapid_pad(c.Propose)), Plain: c.Propose%2 == 0}
			case 2:
				out = server.Outcome{Msg: &refwire.Msg{Kind: refwire.Rstat, Stat: refwire.D{Name: harn.B(strings.Repeat("n", minInt(int(agreed), 65000))), UID: harn.B("u")}}}
			case 3:
				out = server.Outcome{Msg: &refwire.Msg{Kind: refwire.Rwalk, Qids: make([]refwire.Q, minInt(int(agreed)/13+1, 65535))}}
			default:
				out = server.Outcome{Msg: &refwire.Msg{Kind: refwire.Rread, Blob: harn.Blob{N: int(agreed), K: 1}}}
			}
			inv.Release(out)
			res.Classes = append(res.Classes, fmt.Sprintf("oversize_result_%d", c.BigReply))
			if rf, ok, _ := p.Next(5 * time.Millisecond); ok && len(rf.Raw) > int(agreed) {
				return fail("server emitted a %d-byte %s frame for a handler result that cannot fit, agreed msize is %d", len(rf.Raw), kindName(rf.Msg), agreed)
			}
		}
	}
	// 3. one byte more than agreed never reaches the handler
	{
		before := h.Count()
		n := int(agreed) + 1 - 23
		if n < 0 {
			n = 0
		}
		big := refwire.Msg{Kind: refwire.Twrite, Tag: 4, Fid: 8, Blob: harn.Blob{N: n, K: 5}}
		raw := refwire.Frame(&big)
		for len(raw) <= int(agreed) {
			raw = refwire.Frame(&refwire.Msg{Kind: refwire.Twrite, Tag: 4, Fid: 8, Blob: harn.Blob{N: len(raw) - 23 + 1 + n, K: 5}})
			n++
		}
		go p.SendRaw(raw)
		time.Sleep(2 * time.Millisecond)
		if inv := h.WaitFor(before, func(i *server.Invocation) bool { return i.Msg.Kind == refwire.Twrite && i.Msg.Fid == 8 }, 20*time.Millisecond); inv != nil {
			return fail("a %d-byte frame (agreed msize %d) was dispatched to the handler", len(raw), agreed)
		}
		res.Classes = append(res.Classes, "oversize_not_dispatched")
	}
	// every frame the server sent so far respected the agreed msize
	for {
		f, ok, _ := p.Next(0)
		if !ok {
			break
		}
		if len(f.Raw) > int(agreed) {
			return fail("server emitted a %d-byte frame, agreed msize is %d", len(f.Raw), agreed)
		}
	}
	return res
}

// ---- (b) real client, scripted server

type CliNegCase struct {
	Answer     uint32
	Rendezvous bool
}

func GenCliNeg(t *rapid.T) CliNegCase {
	return CliNegCase{Answer: genMSize(t, "answer"), Rendezvous: rapid.Bool().Draw(t, "rendezvous")}
}

const clientProposal = 65536

func RunCliNeg(c CliNegCase) harn.Result {
	a, b := memconn.NewPair(memconn.Options{Rendezvous: c.Rendezvous})
	defer a.Close()
	defer b.Close()
	ctx, cancel := context.WithCancel(context.Background())
	defer cancel()
	srv := peer.New(b)
	type sres struct {
		s   p9p.Session
		err error
	}
	ch := make(chan sres, 1)
	go func() {
		s, err := p9p.CSession(ctx, a)
		ch <- sres{s, err}
	}()
	fail := func(format string, x ...any) harn.Result {
		return harn.Fail("%s [server answers msize %d]", fmt.Sprintf(format, x...), c.Answer)
	}
	f, ok, err := srv.Next(bound)
	if !ok || f.Msg == nil || f.Msg.Kind != refwire.Tversion {
		return fail("no Tversion from the client: %v %v", f.Msg, err)
	}
	proposed := f.Msg.MSize
	if proposed != clientProposal {
		return fail("HARNESS: client proposed %d", proposed)
	}
	srv.Send(&refwire.Msg{Kind: refwire.Rversion, Tag: f.Msg.Tag, MSize: c.Answer, Version: harn.B("9P2000")})
	var sess p9p.Session
	select {
	case x := <-ch:
		if x.err != nil {
			return fail("CSession failed: %v", x.err)
		}
		sess = x.s
	case <-time.After(bound):
		return fail("CSession did not return")
	}
	want := c.Answer
	if want > proposed {
		want = proposed
	}
	got, _ := sess.Version()
	if got != int(want) {
		return fail("client adopted msize %d, want min(proposed %d, answered %d) = %d", got, proposed, c.Answer, want)
	}
	agreed := int(want)
	res := harn.Result{NonTrivial: want < clientProposal, Classes: []string{"negotiated"}}
	if agreed < 24 {
		res.Classes = append(res.Classes, "agreed_below_24")
	}
	// the client issues every kind of request with oversized arguments; every
	// frame it emits must respect the agreed msize
	type callFn func(ctx context.Context) error
	big := make([]byte, 70000)
	long := string(make([]byte, 300))
	calls := []struct {
		name  string
		reply func(req *refwire.Msg) *refwire.Msg
		fn    callFn
	}{
		{"read", func(req *refwire.Msg) *refwire.Msg {
			return &refwire.Msg{Kind: refwire.Rread, Tag: req.Tag, Blob: harn.Blob{N: int(req.Count), K: 9}}
		}, func(ctx context.Context) error {
			n, err := sess.Read(ctx, 1, big, 0)
			if err == nil && agreed >= 12 && n != agreed-11 {
				return fmt.Errorf("maximal read returned %d bytes, want agreed-11 = %d", n, agreed-11)
			}
			return err
		}},
		{"read_small", func(req *refwire.Msg) *refwire.Msg {
			return &refwire.Msg{Kind: refwire.Rread, Tag: req.Tag, Blob: harn.Blob{N: int(req.Count), K: 9}}
		}, func(ctx context.Context) error {
			// a read that needs no clamping: its request frame (23 bytes) must still respect msize
			n := agreed - 11
			if n > 3 {
				n = 3
			}
			if n < 0 {
				n = 0
			}
			_, err := sess.Read(ctx, 1, make([]byte, n), 0)
			return err
		}},
		{"write_small", func(req *refwire.Msg) *refwire.Msg {
			return &refwire.Msg{Kind: refwire.Rwrite, Tag: req.Tag, Count: uint32(len(req.Data))}
		}, func(ctx context.Context) error { _, err := sess.Write(ctx, 1, []byte{1}, 0); return err }},
		{"write", func(req *refwire.Msg) *refwire.Msg {
			return &refwire.Msg{Kind: refwire.Rwrite, Tag: req.Tag, Count: uint32(len(req.Data))}
		}, func(ctx context.Context) error { _, err := sess.Write(ctx, 1, big, 0); return err }},
		{"stat", func(req *refwire.Msg) *refwire.Msg { return &refwire.Msg{Kind: refwire.Rstat, Tag: req.Tag} }, func(ctx context.Context) error { _, err := sess.Stat(ctx, 1); return err }},
		{"walk", func(req *refwire.Msg) *refwire.Msg { return &refwire.Msg{Kind: refwire.Rwalk, Tag: req.Tag} }, func(ctx context.Context) error {
			_, err := sess.Walk(ctx, 1, 2, long, long)
			return err
		}},
		{"walk_big", func(req *refwire.Msg) *refwire.Msg { return &refwire.Msg{Kind: refwire.Rwalk, Tag: req.Tag} }, func(ctx context.Context) error {
			// 16 names whose lengths add up to more than 65535 bytes: no msize can carry this request
			names := make([]string, 16)
			for i := range names {
				names[i] = strings.Repeat("w", 4094+int(c.Answer%400))
			}
			_, err := sess.Walk(ctx, 1, 2, names...)
			return err
		}},
		{"attach", func(req *refwire.Msg) *refwire.Msg { return &refwire.Msg{Kind: refwire.Rattach, Tag: req.Tag} }, func(ctx context.Context) error {
			_, err := sess.Attach(ctx, 1, p9p.NOFID, long, "")
			return err
		}},
		{"clunk", func(req *refwire.Msg) *refwire.Msg { return &refwire.Msg{Kind: refwire.Rclunk, Tag: req.Tag} }, func(ctx context.Context) error { return sess.Clunk(ctx, 1) }},
		{"wstat", func(req *refwire.Msg) *refwire.Msg { return &refwire.Msg{Kind: refwire.Rwstat, Tag: req.Tag} }, func(ctx context.Context) error {
			return sess.WStat(ctx, 1, p9p.Dir{Name: long})
		}},
		{"create", func(req *refwire.Msg) *refwire.Msg { return &refwire.Msg{Kind: refwire.Rcreate, Tag: req.Tag} }, func(ctx context.Context) error {
			_, _, err := sess.Create(ctx, 1, long, 0, 0)
			return err
		}},
		{"open", func(req *refwire.Msg) *refwire.Msg { return &refwire.Msg{Kind: refwire.Ropen, Tag: req.Tag} }, func(ctx context.Context) error { _, _, err := sess.Open(ctx, 1, 0); return err }},
	}
	for _, cl := range calls {
		cctx, ccancel := context.WithTimeout(ctx, bound)
		done := make(chan error, 1)
		go func() { done <- cl.fn(cctx) }()
		// serve at most one request for this call
		var ferr error
		served := false
	loop:
		for {
			select {
			case ferr = <-done:
				break loop
			default:
			}
			f, ok, _ := srv.Next(2 * time.Millisecond)
			if !ok {
				continue
			}
			if len(f.Raw) > agreed {
				ccancel()
				return fail("client emitted a %d-byte %s frame for %s, agreed msize is %d", len(f.Raw), kindName(f.Msg), cl.name, agreed)
			}
			if f.Msg != nil && !served {
				served = true
				rep := cl.reply(f.Msg)
				if len(refwire.Frame(rep)) <= agreed {
					srv.Send(rep)
				} else {
					ccancel()
				}
			}
		}
		ccancel()
		if served && ferr != nil && cl.name == "read" && agreed >= 12 {
			return fail("a maximal read (reply frame of exactly the agreed msize %d) failed: %v", agreed, ferr)
		}
		if served {
			res.Classes = append(res.Classes, "emitted_"+cl.name)
		} else {
			res.Classes = append(res.Classes, "refused_"+cl.name)
		}
	}
	// frames nobody asked for, after a negotiation that may have left the client with a tiny
	// msize: a reply with an unknown tag, then a frame one byte beyond the agreed size.  The
	// client may drop them or give the session up; it must not crash (the driver reports a
	// killed process).
	srv.Send(&refwire.Msg{Kind: refwire.Rclunk, Tag: 77})
	over := agreed + 1 - 11
	if over < 0 {
		over = 0
	}
	go srv.Send(&refwire.Msg{Kind: refwire.Rread, Tag: 78, Blob: harn.Blob{N: over, K: 1}})
	time.Sleep(3 * time.Millisecond)
	res.Classes = append(res.Classes, "unsolicited_frames_after_negotiation")
	return res
}

func kindName(m *refwire.Msg) string {
	if m == nil {
		return "undecodable"
	}
	return refwire.KindName[m.Kind]
}

// ---- (c) real server dispatching to a Session whose own Version() reports less than what
// is negotiated on the wire (a custom session, or a proxy SSession(CSession(upstream)) whose
// upstream connection carries less).  What the server answered in its Rversion is the msize
// both ends honour: a request frame of exactly that size must still be served.

type smallSession struct {
	markerSession
	msize int
}

func (s *smallSession) Version() (int, string) { return s.msize, p9p.DefaultVersion }

type SessNegCase struct {
	Propose    uint32
	SessMSize  int
	Rendezvous bool
}

func GenSessNeg(t *rapid.T) SessNegCase {
	c := SessNegCase{Rendezvous: rapid.Bool().Draw(t, "rendezvous")}
	c.Propose = rapid.OneOf(rapid.SampledFrom([]uint32{4096, 8192, 65535, 65536, 65537, 1 << 20}), rapid.Uint32Range(600, 70000)).Draw(t, "propose")
	c.SessMSize = rapid.OneOf(rapid.SampledFrom([]int{0, 24, 256, 4096, 8192}), rapid.IntRange(24, 70000)).Draw(t, "sessmsize")
	return c
}

func RunSessNeg(c SessNegCase) harn.Result {
	a, b := memconn.NewPair(memconn.Options{Rendezvous: c.Rendezvous})
	defer a.Close()
	defer b.Close()
	ctx, cancel := context.WithCancel(context.Background())
	defer cancel()
	ms := &smallSession{msize: c.SessMSize}
	go p9p.ServeConn(ctx, b, p9p.SSession(ms))
	p := peer.New(a)
	fail := func(format string, x ...any) harn.Result {
		return harn.Fail("%s [client proposes msize %d, the served session's own Version() says %d]", fmt.Sprintf(format, x...), c.Propose, c.SessMSize)
	}
	rv, err := p.Handshake(c.Propose, bound)
	if err != nil {
		return fail("handshake failed: %v", err)
	}
	agreed := rv.MSize
	if agreed > c.Propose {
		return fail("server answered msize %d to a proposal of %d", agreed, c.Propose)
	}
	res := harn.Result{NonTrivial: int(agreed) > c.SessMSize, Classes: []string{"served_session"}}
	if res.NonTrivial {
		res.Classes = append(res.Classes, "session_msize_below_agreed")
	}
	// a Twrite frame of exactly the agreed size, then one just above the session's own msize
	sizes := []int{int(agreed) - 23}
	if c.SessMSize+1-23 > 0 && c.SessMSize+1 <= int(agreed) {
		sizes = append(sizes, c.SessMSize+1-23)
	}
	for i, n := range sizes {
		fid := uint32(8 + i) // markerSession: fid%7 != 3, so no marker error
		data := make([]byte, n)
		for x := range data {
			data[x] = byte(int(fid)*3 + x)
		}
		tag := uint16(1 + i)
		p.Send(&refwire.Msg{Kind: refwire.Twrite, Tag: tag, Fid: fid, Offset: 0, Data: harn.B(data)})
		rf, ok, rerr := p.Next(bound)
		if !ok || rf.Msg == nil {
			return fail("no reply to a Twrite frame of %d bytes (agreed msize %d): %v", n+23, agreed, rerr)
		}
		if rf.Msg.Kind != refwire.Rwrite || rf.Msg.Tag != tag || int(rf.Msg.Count) != n {
			return fail("a Twrite frame of %d bytes (agreed msize %d) was answered with %s, want Rwrite count %d", n+23, agreed, brief10(rf.Msg), n)
		}
	}
	return res
}

func brief10(m *refwire.Msg) string {
	if m.Kind == refwire.Rerror {
		return fmt.Sprintf("Rerror(%q)", string(m.Ename))
	}
	return fmt.Sprintf("%s count=%d tag=%d", kindName(m), m.Count, m.Tag)
}
