// Package mockfs is an instrumented in-memory p9p.FileSys.  Every Dirent it
// hands out is a fresh *Handle with a unique id, release accounting, an
// overlap monitor and a per-call fault / gate hook, so that the harness can
// observe exactly what the server session does with the entries it is given.
//
// Conventions (those of the repository's own file systems):
//   - Walk() with no names clones; with names it returns the qids of the
//     elements found, and a counted handle only if all were found; if the
//     first element is missing it returns an error; on a partial walk it
//     returns a non-nil placeholder that must never be used (ramfs does this).
//   - a successful Create consumes the parent handle (ramfs transfers the
//     parent's references to the new handle); Clunk and Remove release.
package mockfs

import (
	"context"
	"errors"
	"fmt"
	"sort"
	"sync"
	"sync/atomic"
	"time"

	p9p "github.com/frobnitzem/go-p9p"
)

type Node struct {
	ID       uint64
	Name     string
	Dir      bool
	Parent   *Node
	Children map[string]*Node
	Data     []byte
	Removed  bool
	Version  uint32
	Mode     uint32
	QExtra   p9p.QType // further qid type bits (QTAPPEND, QTEXCL, QTTMP) next to QTDIR
}

func (n *Node) Qid() p9p.Qid {
	q := p9p.Qid{Path: n.ID, Version: n.Version, Type: n.QExtra}
	if n.Dir {
		q.Type |= p9p.QTDIR
	}
	return q
}

func (n *Node) Stat() p9p.Dir {
	d := p9p.Dir{Qid: n.Qid(), Name: n.Name, Length: uint64(len(n.Data)), Mode: n.Mode, UID: "u", GID: "g", MUID: "m",
		AccessTime: time.Unix(1000+int64(n.ID), 0).UTC(), ModTime: time.Unix(2000+int64(n.ID), 0).UTC()}
	if n.Dir {
		d.Mode |= p9p.DMDIR
	}
	return d
}

// Call describes one invocation of a FileSys/Dirent/File method.
type Call struct {
	Seq    int
	Op     string // attach walk open opendir create remove clunk stat wstat read write readnext
	Handle *Handle
	Names  []string
	Ctx    context.Context
}

// Fault is what the hook may ask a call to do instead of its normal work.
type Fault struct {
	Err     error // fail with this error
	Partial int   // walk: report only this many qids (≥1) even if more exist; 0 = no change
	// WithPlaceholder: open / opendir / create return, next to the error, non-nil placeholder
	// values that must never be used (ramfs returns its noHandle this way)
	WithPlaceholder bool
}

type FS struct {
	mu      sync.Mutex
	Root    *Node
	nextID  uint64
	nextH   int
	seq     int
	Handles []*Handle
	Log     []string
	// Hook is called at the start of every call, outside the FS lock; it may
	// block (gate) and may return a fault.  nil = no faults.
	Hook func(c *Call) *Fault
	// Violations found by the instrumentation itself.
	viol []string

	AuthRequired bool
	ListBatch    int // OpenDir hands entries out in batches of this size (0 = all at once)
}

type Handle struct {
	ID          int
	Node        *Node
	fs          *FS
	Placeholder bool // result of a partial walk: must not be used
	Counted     bool // handed to the session as a real entry
	Exempt      bool // release accounting does not apply (see sessfs: failed create-directory corner)

	Origin *Call // the call that created this handle

	releases  int32
	ReleaseBy string
	inCall    int32
	usedAfter int32
	file      *OpenFile
}

type OpenFile struct {
	H           *Handle
	inCall      int32
	placeholder bool // returned together with an error: must never be used
}

var ErrInjected = p9p.MessageRerror{Ename: "injected failure"}

func New() *FS {
	fs := &FS{nextID: 1}
	fs.Root = &Node{ID: 1, Name: "/", Dir: true, Children: map[string]*Node{}, Mode: 0755}
	fs.nextID = 2
	return fs
}

// Populate builds the standard small tree:
//
//	/a/ (dir)  /a/x (file)  /a/d/ (dir)  /a/d/y (file)  /f (file)  /e/ (empty dir)
func (fs *FS) Populate() {
	a := fs.addNode(fs.Root, "a", true)
	a.QExtra = p9p.QTTMP // a directory whose qid type is not just QTDIR
	fs.addNode(a, "x", false).Data = []byte("contents of x")
	d := fs.addNode(a, "d", true)
	d.QExtra = p9p.QTAPPEND | p9p.QTEXCL
	fs.addNode(d, "y", false).Data = []byte("yy")
	fs.addNode(fs.Root, "f", false).Data = []byte("file f data")
	fs.addNode(fs.Root, "e", true)
}

func (fs *FS) addNode(parent *Node, name string, dir bool) *Node {
	n := &Node{ID: fs.nextID, Name: name, Dir: dir, Parent: parent, Mode: 0644}
	fs.nextID++
	if dir {
		n.Children = map[string]*Node{}
		n.Mode = 0755
	}
	parent.Children[name] = n
	return n
}

func (fs *FS) violate(format string, a ...any) {
	fs.mu.Lock()
	fs.viol = append(fs.viol, fmt.Sprintf(format, a...))
	fs.mu.Unlock()
}

// Violations returns what the instrumentation has seen go wrong so far.
func (fs *FS) Violations() []string {
	fs.mu.Lock()
	defer fs.mu.Unlock()
	return append([]string(nil), fs.viol...)
}

func (fs *FS) newHandle(n *Node, counted bool, origin *Call) *Handle {
	fs.nextH++
	h := &Handle{ID: fs.nextH, Node: n, fs: fs, Counted: counted, Placeholder: !counted, Origin: origin}
	fs.Handles = append(fs.Handles, h)
	return h
}

// enter performs the bookkeeping common to every call on a handle and runs
// the hook.  It returns the fault to apply, if any.
func (fs *FS) enter(op string, h *Handle, ctx context.Context, names []string) (*Call, *Fault) {
	fs.mu.Lock()
	fs.seq++
	c := &Call{Seq: fs.seq, Op: op, Handle: h, Names: names, Ctx: ctx}
	hook := fs.Hook
	fs.mu.Unlock()
	if h != nil {
		if h.Placeholder {
			fs.violate("call %s on the placeholder returned by a partial walk (handle %d)", op, h.ID)
		}
		if atomic.LoadInt32(&h.releases) > 0 && !h.Exempt {
			atomic.AddInt32(&h.usedAfter, 1)
			fs.mu.Lock()
			by := h.ReleaseBy
			fs.mu.Unlock()
			fs.violate("call %s on handle %d after its release by %s", op, h.ID, by)
		}
		if n := atomic.AddInt32(&h.inCall, 1); n > 1 {
			fs.violate("overlapping calls on handle %d (op %s)", h.ID, op)
		}
	}
	var f *Fault
	if hook != nil {
		f = hook(c)
	}
	return c, f
}

func (fs *FS) leave(h *Handle) {
	if h != nil {
		atomic.AddInt32(&h.inCall, -1)
	}
}

func (h *Handle) release(by string) {
	h.fs.mu.Lock()
	first := h.ReleaseBy
	if first == "" {
		h.ReleaseBy = by
	}
	h.fs.mu.Unlock()
	if n := atomic.AddInt32(&h.releases, 1); n > 1 && !h.Exempt {
		h.fs.violate("handle %d released twice (first by %s, again by %s)", h.ID, first, by)
	}
}

// ReleasedBy reports what released the handle ("" if not released).
func (h *Handle) ReleasedBy() string {
	h.fs.mu.Lock()
	defer h.fs.mu.Unlock()
	return h.ReleaseBy
}

// MaxHandleID returns the id of the most recently created handle.
func (fs *FS) MaxHandleID() int {
	fs.mu.Lock()
	defer fs.mu.Unlock()
	return fs.nextH
}

// AllHandles returns a snapshot of every handle created so far.
func (fs *FS) AllHandles() []*Handle {
	fs.mu.Lock()
	defer fs.mu.Unlock()
	return append([]*Handle(nil), fs.Handles...)
}

func (h *Handle) Released() bool    { return atomic.LoadInt32(&h.releases) > 0 }
func (h *Handle) ReleaseCount() int { return int(atomic.LoadInt32(&h.releases)) }
func (h *Handle) UsedAfter() int    { return int(atomic.LoadInt32(&h.usedAfter)) }

// ---- p9p.FileSys

func (fs *FS) RequireAuth(ctx context.Context) bool { return fs.AuthRequired }

func (fs *FS) Auth(ctx context.Context, uname, aname string) (p9p.AuthFile, error) {
	return nil, errors.New("mockfs: no auth")
}

func (fs *FS) Attach(ctx context.Context, uname, aname string, af p9p.AuthFile) (p9p.Dirent, error) {
	c, f := fs.enter("attach", nil, ctx, nil)
	if f != nil && f.Err != nil {
		return nil, f.Err
	}
	fs.mu.Lock()
	defer fs.mu.Unlock()
	return fs.newHandle(fs.Root, true, c), nil
}

// ---- p9p.Dirent

func (h *Handle) Qid() p9p.Qid {
	h.fs.mu.Lock()
	defer h.fs.mu.Unlock()
	if h.Node == nil {
		return p9p.Qid{}
	}
	return h.Node.Qid()
}

// Resolve walks names from n in the model tree: the nodes found, in order.
func Resolve(n *Node, names []string) []*Node {
	var out []*Node
	cur := n
	for _, s := range names {
		var next *Node
		if s == ".." {
			next = cur.Parent // nil at the root: ".." above the root is not found
		} else if cur.Dir && !cur.Removed {
			next = cur.Children[s]
		}
		if next == nil {
			break
		}
		out = append(out, next)
		cur = next
	}
	return out
}

func (h *Handle) Walk(ctx context.Context, names ...string) ([]p9p.Qid, p9p.Dirent, error) {
	c, f := h.fs.enter("walk", h, ctx, names)
	defer h.fs.leave(h)
	if f != nil && f.Err != nil {
		return nil, nil, f.Err
	}
	fs := h.fs
	fs.mu.Lock()
	defer fs.mu.Unlock()
	if len(names) == 0 {
		return nil, fs.newHandle(h.Node, true, c), nil
	}
	found := Resolve(h.Node, names)
	if f != nil && f.Partial > 0 && f.Partial < len(found) {
		found = found[:f.Partial]
	}
	if len(found) == 0 {
		return nil, fs.newHandle(nil, false, c), p9p.ErrNotfound
	}
	qids := make([]p9p.Qid, len(found))
	for i, n := range found {
		qids[i] = n.Qid()
	}
	if len(found) < len(names) {
		return qids, fs.newHandle(nil, false, c), nil
	}
	return qids, fs.newHandle(found[len(found)-1], true, c), nil
}

func (h *Handle) OpenDir(ctx context.Context) (p9p.ReadNext, error) {
	_, f := h.fs.enter("opendir", h, ctx, nil)
	defer h.fs.leave(h)
	if f != nil && f.Err != nil {
		if f.WithPlaceholder {
			fs := h.fs
			return func(ctx context.Context) ([]p9p.Dir, error) {
				fs.violate("the placeholder directory iterator returned together with an OpenDir error (handle %d) was used", h.ID)
				return nil, f.Err
			}, f.Err
		}
		return nil, f.Err
	}
	fs := h.fs
	fs.mu.Lock()
	defer fs.mu.Unlock()
	if !h.Node.Dir {
		return nil, p9p.MessageRerror{Ename: "not a directory"}
	}
	var dirs []p9p.Dir
	names := make([]string, 0, len(h.Node.Children))
	for k := range h.Node.Children {
		names = append(names, k)
	}
	sort.Strings(names)
	for _, k := range names {
		dirs = append(dirs, h.Node.Children[k].Stat())
	}
	batch := fs.ListBatch
	var inIter int32
	return func(ctx context.Context) ([]p9p.Dir, error) {
		// the iterator belongs to the open file of one fid: calls must not overlap
		if n := atomic.AddInt32(&inIter, 1); n > 1 {
			fs.violate("overlapping calls on the directory iterator of handle %d", h.ID)
		}
		defer atomic.AddInt32(&inIter, -1)
		if hook := fs.Hook; hook != nil {
			hook(&Call{Op: "readnext", Handle: h, Ctx: ctx})
		}
		fs.mu.Lock()
		defer fs.mu.Unlock()
		if len(dirs) == 0 {
			return nil, nil
		}
		n := len(dirs)
		if batch > 0 && batch < n {
			n = batch
		}
		out := dirs[:n]
		dirs = dirs[n:]
		return out, nil
	}, nil
}

// QExtraOf: the qid type bits a created file gets from its permission bits.
func QExtraOf(perm uint32) p9p.QType {
	var q p9p.QType
	if perm&p9p.DMAPPEND != 0 {
		q |= p9p.QTAPPEND
	}
	if perm&p9p.DMEXCL != 0 {
		q |= p9p.QTEXCL
	}
	if perm&p9p.DMTMP != 0 {
		q |= p9p.QTTMP
	}
	return q
}

func validName(name string) bool {
	if name == "" || name == "." || name == ".." {
		return false
	}
	for _, c := range name {
		if c == '/' || c == '\\' {
			return false
		}
	}
	return true
}

func (h *Handle) Create(ctx context.Context, name string, perm uint32, mode p9p.Flag) (p9p.Dirent, p9p.File, error) {
	c, f := h.fs.enter("create", h, ctx, []string{name})
	defer h.fs.leave(h)
	if f != nil && f.Err != nil {
		if f.WithPlaceholder {
			h.fs.mu.Lock()
			ph := h.fs.newHandle(nil, false, c)
			h.fs.mu.Unlock()
			return ph, &OpenFile{H: ph, placeholder: true}, f.Err
		}
		return nil, nil, f.Err
	}
	fs := h.fs
	fs.mu.Lock()
	if !h.Node.Dir || h.Node.Removed {
		fs.mu.Unlock()
		return nil, nil, p9p.ErrCreatenondir
	}
	if !validName(name) {
		fs.mu.Unlock()
		return nil, nil, p9p.MessageRerror{Ename: "invalid name"}
	}
	if _, dup := h.Node.Children[name]; dup {
		fs.mu.Unlock()
		return nil, nil, p9p.MessageRerror{Ename: "file exists"}
	}
	n := fs.addNode(h.Node, name, perm&p9p.DMDIR != 0)
	n.Mode = perm & 0777
	n.QExtra = QExtraOf(perm)
	nh := fs.newHandle(n, true, c)
	nh.file = &OpenFile{H: nh}
	fs.mu.Unlock()
	h.release("create") // a successful create consumes the parent handle
	return nh, nh.file, nil
}

func (h *Handle) Open(ctx context.Context, mode p9p.Flag) (p9p.File, error) {
	_, f := h.fs.enter("open", h, ctx, nil)
	defer h.fs.leave(h)
	if f != nil && f.Err != nil {
		if f.WithPlaceholder {
			return &OpenFile{H: h, placeholder: true}, f.Err
		}
		return nil, f.Err
	}
	h.fs.mu.Lock()
	defer h.fs.mu.Unlock()
	if h.Node.Dir {
		h.fs.viol = append(h.fs.viol, fmt.Sprintf("Open called on a directory entry (handle %d); the session must use OpenDir", h.ID))
	}
	if h.file != nil {
		h.fs.viol = append(h.fs.viol, fmt.Sprintf("handle %d opened twice", h.ID))
	}
	if mode&p9p.OTRUNC != 0 {
		h.Node.Data = nil
	}
	h.file = &OpenFile{H: h}
	return h.file, nil
}

func (h *Handle) Remove(ctx context.Context) error {
	_, f := h.fs.enter("remove", h, ctx, nil)
	defer h.fs.leave(h)
	h.release("remove")
	if f != nil && f.Err != nil {
		return f.Err
	}
	h.fs.mu.Lock()
	defer h.fs.mu.Unlock()
	n := h.Node
	if n == nil || n.Parent == nil {
		return p9p.MessageRerror{Ename: "cannot remove root"}
	}
	if n.Dir && len(n.Children) > 0 {
		return p9p.MessageRerror{Ename: "directory not empty"}
	}
	if n.Removed {
		return p9p.MessageRerror{Ename: "already removed"}
	}
	if n.Parent.Children[n.Name] == n {
		delete(n.Parent.Children, n.Name)
	}
	n.Removed = true
	return nil
}

func (h *Handle) Clunk(ctx context.Context) error {
	_, f := h.fs.enter("clunk", h, ctx, nil)
	defer h.fs.leave(h)
	h.release("clunk")
	if f != nil && f.Err != nil {
		return f.Err
	}
	return nil
}

func (h *Handle) Stat(ctx context.Context) (p9p.Dir, error) {
	_, f := h.fs.enter("stat", h, ctx, nil)
	defer h.fs.leave(h)
	if f != nil && f.Err != nil {
		return p9p.Dir{}, f.Err
	}
	h.fs.mu.Lock()
	defer h.fs.mu.Unlock()
	return h.Node.Stat(), nil
}

func (h *Handle) WStat(ctx context.Context, d p9p.Dir) error {
	_, f := h.fs.enter("wstat", h, ctx, nil)
	defer h.fs.leave(h)
	if f != nil && f.Err != nil {
		return f.Err
	}
	h.fs.mu.Lock()
	defer h.fs.mu.Unlock()
	if d.Mode != ^uint32(0) {
		h.Node.Mode = d.Mode & 0777
	}
	if d.Length != ^uint64(0) && !h.Node.Dir {
		if d.Length > uint64(len(h.Node.Data)) {
			return p9p.MessageRerror{Ename: "cannot extend"}
		}
		h.Node.Data = h.Node.Data[:d.Length]
	}
	return nil
}

// ---- p9p.File

func (of *OpenFile) enter(op string, ctx context.Context) *Fault {
	h := of.H
	if of.placeholder {
		h.fs.violate("%s on the placeholder file value that was returned together with an open/create error (handle %d)", op, h.ID)
	}
	if n := atomic.AddInt32(&of.inCall, 1); n > 1 {
		h.fs.violate("overlapping calls on the open file of handle %d (op %s)", h.ID, op)
	}
	_, f := h.fs.enter(op, h, ctx, nil)
	return f
}

func (of *OpenFile) leave() {
	of.H.fs.leave(of.H)
	atomic.AddInt32(&of.inCall, -1)
}

func (of *OpenFile) Read(ctx context.Context, p []byte, offset int64) (int, error) {
	f := of.enter("read", ctx)
	defer of.leave()
	if f != nil && f.Err != nil {
		return 0, f.Err
	}
	fs := of.H.fs
	fs.mu.Lock()
	defer fs.mu.Unlock()
	data := of.H.Node.Data
	if offset < 0 || offset > int64(len(data)) {
		return 0, p9p.ErrBadoffset
	}
	return copy(p, data[offset:]), nil
}

func (of *OpenFile) Write(ctx context.Context, p []byte, offset int64) (int, error) {
	f := of.enter("write", ctx)
	defer of.leave()
	if f != nil && f.Err != nil {
		return 0, f.Err
	}
	fs := of.H.fs
	fs.mu.Lock()
	defer fs.mu.Unlock()
	n := of.H.Node
	if offset < 0 || offset > int64(len(n.Data)) {
		return 0, p9p.ErrBadoffset
	}
	n.Data = append(n.Data[:offset:offset], append(append([]byte(nil), p...), tail(n.Data, offset+int64(len(p)))...)...)
	n.Version++
	return len(p), nil
}

func tail(b []byte, from int64) []byte {
	if from >= int64(len(b)) {
		return nil
	}
	return b[from:]
}

func (of *OpenFile) IOUnit() int { return 0 }

var _ p9p.FileSys = (*FS)(nil)
var _ p9p.Dirent = (*Handle)(nil)
var _ p9p.File = (*OpenFile)(nil)

// PopulateDeep adds a chain of directories /name/d1/d2/.../d<depth>.
func (fs *FS) PopulateDeep(name string, depth int) {
	fs.mu.Lock()
	defer fs.mu.Unlock()
	cur := fs.addNode(fs.Root, name, true)
	for i := 1; i <= depth; i++ {
		cur = fs.addNode(cur, fmt.Sprintf("d%d", i), true)
	}
}

// NewFileRoot: a file system whose attach point is a regular file (9P allows exporting one file).
func NewFileRoot() *FS {
	fs := New()
	fs.Root = &Node{ID: 1, Name: "/", Dir: false, Mode: 0644, Data: []byte("the exported file")}
	return fs
}

// PopulateDir adds a directory /name with n children produced by f.
func (fs *FS) PopulateDir(name string, n int, f func(i int) (string, []byte)) {
	fs.mu.Lock()
	defer fs.mu.Unlock()
	d := fs.addNode(fs.Root, name, true)
	for i := 0; i < n; i++ {
		cn, data := f(i)
		if _, dup := d.Children[cn]; dup {
			cn = fmt.Sprintf("%s~%d", cn, i)
		}
		fs.addNode(d, cn, false).Data = data
	}
}

// Listing returns the stat records of /name's children in the order OpenDir serves them.
func (fs *FS) Listing(name string) []p9p.Dir {
	fs.mu.Lock()
	defer fs.mu.Unlock()
	d := fs.Root.Children[name]
	var names []string
	for k := range d.Children {
		names = append(names, k)
	}
	sort.Strings(names)
	var out []p9p.Dir
	for _, k := range names {
		out = append(out, d.Children[k].Stat())
	}
	return out
}
