package gen

import (
	"bytes"
	"pgregory.net/rapid"

	"verifharness/internal/harn"
	"verifharness/internal/refwire"
)

// Sizes controls how large the rare "big" classes get.
type Sizes struct {
	Big bool // allow 64 KiB strings, 65535-element lists, 1 MiB data
	// FillStat: about one stat record in 25 is filled to within 0..4 bytes of the largest
	// representable record (its own size field 65529..65533, the whole record 65531..65535)
	FillStat bool
}

func U8() *rapid.Generator[uint8] {
	return rapid.OneOf(rapid.SampledFrom([]uint8{0, 1, 2, 3, 0x10, 0x7f, 0x80, 0xfe, 0xff}), rapid.Uint8())
}
func U16() *rapid.Generator[uint16] {
	return rapid.OneOf(rapid.SampledFrom([]uint16{0, 1, 0xff, 0x100, 0x7fff, 0x8000, 0xfffe, 0xffff}), rapid.Uint16())
}
func U32() *rapid.Generator[uint32] {
	return rapid.OneOf(rapid.SampledFrom([]uint32{0, 1, 0xff, 0x100, 0xffff, 0x10000, 0x7fffffff, 0x80000000, 0xfffffffe, 0xffffffff}), rapid.Uint32())
}
func U64() *rapid.Generator[uint64] {
	return rapid.OneOf(rapid.SampledFrom([]uint64{0, 1, 0xffffffff, 0x100000000, 0x7fffffffffffffff, 0x8000000000000000, 0xfffffffffffffffe, 0xffffffffffffffff}), rapid.Uint64())
}

// Str generates wire strings: empty, one byte, non-UTF-8, NUL, around the
// 255/256 boundary, and (rarely, when big) up to 65535 bytes.
func Str(sz Sizes, max int) *rapid.Generator[harn.B] {
	return rapid.Custom(func(t *rapid.T) harn.B {
		class := rapid.IntRange(0, 19).Draw(t, "strclass")
		var n int
		switch {
		case class < 3:
			return nil
		case class < 10:
			// short printable
			s := rapid.StringMatching(`[a-zA-Z0-9._/ -]{1,12}`).Draw(t, "s")
			if len(s) > max {
				s = s[:max]
			}
			return harn.B(s)
		case class < 13:
			// arbitrary bytes incl. NUL and non-UTF-8
			b := rapid.SliceOfN(rapid.Byte(), 1, 24).Draw(t, "b")
			if len(b) > max {
				b = b[:max]
			}
			return harn.B(b)
		case class < 16:
			n = rapid.SampledFrom([]int{1, 2, 127, 128, 254, 255, 256, 257}).Draw(t, "n")
		case class < 18:
			n = rapid.IntRange(258, 2000).Draw(t, "n")
		default:
			if sz.Big {
				n = rapid.SampledFrom([]int{32767, 32768, 65534, 65535}).Draw(t, "n")
			} else {
				n = rapid.IntRange(2000, 5000).Draw(t, "n")
			}
		}
		if n > max {
			n = max
		}
		k := rapid.Byte().Draw(t, "k")
		return harn.B(harn.Blob{N: n, K: k}.Bytes())
	})
}

func Qid() *rapid.Generator[refwire.Q] {
	return rapid.Custom(func(t *rapid.T) refwire.Q {
		return refwire.Q{Type: U8().Draw(t, "qtype"), Version: U32().Draw(t, "qvers"), Path: U64().Draw(t, "qpath")}
	})
}

// Stat generates a stat record whose total encoded size is ≤ 65535.
func Stat(sz Sizes) *rapid.Generator[refwire.D] {
	return rapid.Custom(func(t *rapid.T) refwire.D {
		d := refwire.D{
			Type: U16().Draw(t, "type"), Dev: U32().Draw(t, "dev"), Qid: Qid().Draw(t, "qid"),
			Mode: U32().Draw(t, "mode"), Atime: U32().Draw(t, "atime"), Mtime: U32().Draw(t, "mtime"),
			Length: U64().Draw(t, "length"),
		}
		room := 65535 - 2 - 39 - 8 // what is left for the four strings
		if sz.FillStat && rapid.IntRange(0, 24).Draw(t, "fillstat") == 0 {
			total := room - rapid.IntRange(0, 4).Draw(t, "under")
			a := rapid.IntRange(0, total).Draw(t, "cut1")
			b := rapid.IntRange(0, total-a).Draw(t, "cut2")
			c := rapid.IntRange(0, total-a-b).Draw(t, "cut3")
			if rapid.Bool().Draw(t, "onebig") {
				a, b, c = total-3, 1, 1
			}
			fill := func(n int, ch byte) harn.B { return harn.B(bytes.Repeat([]byte{ch}, n)) }
			d.Name, d.UID, d.GID, d.MUID = fill(a, 'n'), fill(b, 'u'), fill(c, 'g'), fill(total-a-b-c, 'm')
			return d
		}
		d.Name = Str(sz, room).Draw(t, "name")
		room -= len(d.Name)
		d.UID = Str(sz, room).Draw(t, "uid")
		room -= len(d.UID)
		d.GID = Str(sz, room).Draw(t, "gid")
		room -= len(d.GID)
		d.MUID = Str(sz, room).Draw(t, "muid")
		return d
	})
}

func listLen(t *rapid.T, sz Sizes, label string) int {
	c := rapid.IntRange(0, 19).Draw(t, label+"class")
	switch {
	case c < 3:
		return 0
	case c < 7:
		return 1
	case c < 14:
		return rapid.IntRange(2, 16).Draw(t, label)
	case c < 17:
		return rapid.SampledFrom([]int{16, 17, 18, 255, 256}).Draw(t, label)
	case c < 19:
		return rapid.IntRange(17, 600).Draw(t, label)
	default:
		if sz.Big {
			return rapid.SampledFrom([]int{4681, 65534, 65535}).Draw(t, label)
		}
		return rapid.IntRange(600, 3000).Draw(t, label)
	}
}

func dataBlob(t *rapid.T, sz Sizes) (harn.B, harn.Blob) {
	c := rapid.IntRange(0, 19).Draw(t, "dataclass")
	switch {
	case c < 3:
		return nil, harn.Blob{}
	case c < 10:
		return harn.B(rapid.SliceOfN(rapid.Byte(), 1, 40).Draw(t, "data")), harn.Blob{}
	case c < 16:
		return nil, harn.Blob{N: rapid.IntRange(1, 9000).Draw(t, "n"), K: rapid.Byte().Draw(t, "k")}
	case c < 19:
		return nil, harn.Blob{N: rapid.SampledFrom([]int{4095, 4096, 4097, 8192, 65512, 65513, 65536}).Draw(t, "n"), K: rapid.Byte().Draw(t, "k")}
	default:
		if sz.Big {
			return nil, harn.Blob{N: rapid.SampledFrom([]int{1 << 20, 1<<20 + 1, 3 << 20}).Draw(t, "n"), K: rapid.Byte().Draw(t, "k")}
		}
		return nil, harn.Blob{N: rapid.IntRange(9000, 70000).Draw(t, "n"), K: rapid.Byte().Draw(t, "k")}
	}
}

// MsgOfKind generates a message of the given kind.
func MsgOfKind(kind uint8, sz Sizes) *rapid.Generator[refwire.Msg] {
	return rapid.Custom(func(t *rapid.T) refwire.Msg {
		m := refwire.Msg{Kind: kind, Tag: U16().Draw(t, "tag")}
		switch kind {
		case refwire.Tversion, refwire.Rversion:
			m.MSize = U32().Draw(t, "msize")
			m.Version = rapid.OneOf(rapid.SampledFrom([]harn.B{harn.B("9P2000"), harn.B("unknown"), harn.B("9P2000.u"), nil}), Str(sz, 65535)).Draw(t, "version")
		case refwire.Tauth:
			m.Afid = U32().Draw(t, "afid")
			m.Uname = Str(sz, 65535).Draw(t, "uname")
			m.Aname = Str(sz, 65535).Draw(t, "aname")
		case refwire.Rauth, refwire.Rattach:
			m.Qid = Qid().Draw(t, "qid")
		case refwire.Tattach:
			m.Fid = U32().Draw(t, "fid")
			m.Afid = U32().Draw(t, "afid")
			m.Uname = Str(sz, 65535).Draw(t, "uname")
			m.Aname = Str(sz, 65535).Draw(t, "aname")
		case refwire.Rerror:
			m.Ename = Str(sz, 65535).Draw(t, "ename")
		case refwire.Tflush:
			m.Oldtag = U16().Draw(t, "oldtag")
		case refwire.Twalk:
			m.Fid = U32().Draw(t, "fid")
			m.Newfid = U32().Draw(t, "newfid")
			n := listLen(t, sz, "nwname")
			if n > 20 {
				// long lists: cheap short names
				k := rapid.IntRange(0, 3).Draw(t, "namelen")
				for i := 0; i < n; i++ {
					m.Wnames = append(m.Wnames, harn.B("abc"[:k]))
				}
			} else {
				for i := 0; i < n; i++ {
					m.Wnames = append(m.Wnames, Str(sz, 65535).Draw(t, "wname"))
				}
			}
			if n == 0 && rapid.Bool().Draw(t, "emptyNotNil") {
				m.Wnames = []harn.B{}
			}
		case refwire.Rwalk:
			n := listLen(t, sz, "nwqid")
			if n > 20 {
				q := Qid().Draw(t, "q")
				for i := 0; i < n; i++ {
					q.Path += uint64(i)
					m.Qids = append(m.Qids, q)
				}
			} else {
				for i := 0; i < n; i++ {
					m.Qids = append(m.Qids, Qid().Draw(t, "q"))
				}
			}
		case refwire.Topen:
			m.Fid = U32().Draw(t, "fid")
			m.Mode = U8().Draw(t, "mode")
		case refwire.Ropen, refwire.Rcreate:
			m.Qid = Qid().Draw(t, "qid")
			m.IOUnit = U32().Draw(t, "iounit")
		case refwire.Tcreate:
			m.Fid = U32().Draw(t, "fid")
			m.Name = Str(sz, 65535).Draw(t, "name")
			m.Perm = U32().Draw(t, "perm")
			m.Mode = U8().Draw(t, "mode")
		case refwire.Tread:
			m.Fid = U32().Draw(t, "fid")
			m.Offset = U64().Draw(t, "offset")
			m.Count = U32().Draw(t, "count")
		case refwire.Rread:
			m.Data, m.Blob = dataBlob(t, sz)
		case refwire.Twrite:
			m.Fid = U32().Draw(t, "fid")
			m.Offset = U64().Draw(t, "offset")
			m.Data, m.Blob = dataBlob(t, sz)
		case refwire.Rwrite:
			m.Count = U32().Draw(t, "count")
		case refwire.Tclunk, refwire.Tremove, refwire.Tstat:
			m.Fid = U32().Draw(t, "fid")
		case refwire.Rstat:
			m.Stat = Stat(sz).Draw(t, "stat")
		case refwire.Twstat:
			m.Fid = U32().Draw(t, "fid")
			m.Stat = Stat(sz).Draw(t, "stat")
		}
		return m
	})
}

// AnyMsg generates a message of any of the 27 kinds.
func AnyMsg(sz Sizes) *rapid.Generator[refwire.Msg] {
	return rapid.Custom(func(t *rapid.T) refwire.Msg {
		k := rapid.SampledFrom(refwire.Kinds).Draw(t, "kind")
		return MsgOfKind(k, sz).Draw(t, "msg")
	})
}

// SmallMsg generates messages whose frames stay small (≤ ~300 bytes): used
// where many messages travel over a connection.
func SmallMsg() *rapid.Generator[refwire.Msg] {
	return rapid.Custom(func(t *rapid.T) refwire.Msg {
		m := AnyMsg(Sizes{}).Draw(t, "m")
		Shrink(&m, 40)
		return m
	})
}

// Shrink caps every variable-length field of m at n bytes / 4 elements.
func Shrink(m *refwire.Msg, n int) {
	c := func(b harn.B) harn.B {
		if len(b) > n {
			return b[:n]
		}
		return b
	}
	m.Version, m.Uname, m.Aname, m.Ename, m.Name = c(m.Version), c(m.Uname), c(m.Aname), c(m.Ename), c(m.Name)
	if len(m.Wnames) > 4 {
		m.Wnames = m.Wnames[:4]
	}
	for i := range m.Wnames {
		m.Wnames[i] = c(m.Wnames[i])
	}
	if len(m.Qids) > 4 {
		m.Qids = m.Qids[:4]
	}
	m.Data = c(m.Data)
	if m.Blob.N > n {
		m.Blob.N = n
	}
	m.Stat.Name, m.Stat.UID, m.Stat.GID, m.Stat.MUID = c(m.Stat.Name), c(m.Stat.UID), c(m.Stat.GID), c(m.Stat.MUID)
}
