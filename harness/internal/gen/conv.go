// Package gen holds the conversions between the neutral refwire.Msg and the
// library's p9p.Fcall, and the rapid generators for messages.
package gen

import (
	"fmt"
	"time"

	p9p "github.com/frobnitzem/go-p9p"

	"verifharness/internal/harn"
	"verifharness/internal/refwire"
)

// Locations used to build time.Time values: the wire carries whole seconds
// only, so the location must not matter.
var locs = []*time.Location{time.UTC, time.FixedZone("east", 5*3600+1800), time.FixedZone("west", -9*3600)}

func mkTime(sec uint32, loc int) time.Time {
	return time.Unix(int64(sec), 0).In(locs[loc%len(locs)])
}

func ToQid(q refwire.Q) p9p.Qid {
	return p9p.Qid{Type: p9p.QType(q.Type), Version: q.Version, Path: q.Path}
}
func FromQid(q p9p.Qid) refwire.Q {
	return refwire.Q{Type: uint8(q.Type), Version: q.Version, Path: q.Path}
}

func ToDir(d refwire.D, loc int) p9p.Dir {
	return p9p.Dir{
		Type: d.Type, Dev: d.Dev, Qid: ToQid(d.Qid), Mode: d.Mode,
		AccessTime: mkTime(d.Atime, loc), ModTime: mkTime(d.Mtime, loc+1),
		Length: d.Length, Name: string(d.Name), UID: string(d.UID), GID: string(d.GID), MUID: string(d.MUID),
	}
}

func nb(s string) harn.B {
	if len(s) == 0 {
		return nil
	}
	return harn.B(s)
}

func FromDir(d p9p.Dir) refwire.D {
	return refwire.D{
		Type: d.Type, Dev: d.Dev, Qid: FromQid(d.Qid), Mode: d.Mode,
		Atime: uint32(d.AccessTime.Unix()), Mtime: uint32(d.ModTime.Unix()),
		AtimeNs: d.AccessTime.Nanosecond(), MtimeNs: d.ModTime.Nanosecond(),
		AtimeX: d.AccessTime.Unix() >> 32, MtimeX: d.ModTime.Unix() >> 32,
		Length: d.Length, Name: nb(d.Name), UID: nb(d.UID), GID: nb(d.GID), MUID: nb(d.MUID),
	}
}

func strs(bs []harn.B) []string {
	if bs == nil {
		return nil
	}
	out := make([]string, len(bs))
	for i, b := range bs {
		out[i] = string(b)
	}
	return out
}

// ToMessage builds the library's message value (a value type, as every
// caller in the repository does).  loc selects time locations for Dir.
func ToMessage(m *refwire.Msg, loc int) p9p.Message {
	switch m.Kind {
	case refwire.Tversion:
		return p9p.MessageTversion{MSize: m.MSize, Version: string(m.Version)}
	case refwire.Rversion:
		return p9p.MessageRversion{MSize: m.MSize, Version: string(m.Version)}
	case refwire.Tauth:
		return p9p.MessageTauth{Afid: p9p.Fid(m.Afid), Uname: string(m.Uname), Aname: string(m.Aname)}
	case refwire.Rauth:
		return p9p.MessageRauth{Qid: ToQid(m.Qid)}
	case refwire.Tattach:
		return p9p.MessageTattach{Fid: p9p.Fid(m.Fid), Afid: p9p.Fid(m.Afid), Uname: string(m.Uname), Aname: string(m.Aname)}
	case refwire.Rattach:
		return p9p.MessageRattach{Qid: ToQid(m.Qid)}
	case refwire.Rerror:
		return p9p.MessageRerror{Ename: string(m.Ename)}
	case refwire.Tflush:
		return p9p.MessageTflush{Oldtag: p9p.Tag(m.Oldtag)}
	case refwire.Rflush:
		return p9p.MessageRflush{}
	case refwire.Twalk:
		return p9p.MessageTwalk{Fid: p9p.Fid(m.Fid), Newfid: p9p.Fid(m.Newfid), Wnames: strs(m.Wnames)}
	case refwire.Rwalk:
		var qs []p9p.Qid
		for _, q := range m.Qids {
			qs = append(qs, ToQid(q))
		}
		return p9p.MessageRwalk{Qids: qs}
	case refwire.Topen:
		return p9p.MessageTopen{Fid: p9p.Fid(m.Fid), Mode: p9p.Flag(m.Mode)}
	case refwire.Ropen:
		return p9p.MessageRopen{Qid: ToQid(m.Qid), IOUnit: m.IOUnit}
	case refwire.Tcreate:
		return p9p.MessageTcreate{Fid: p9p.Fid(m.Fid), Name: string(m.Name), Perm: m.Perm, Mode: p9p.Flag(m.Mode)}
	case refwire.Rcreate:
		return p9p.MessageRcreate{Qid: ToQid(m.Qid), IOUnit: m.IOUnit}
	case refwire.Tread:
		return p9p.MessageTread{Fid: p9p.Fid(m.Fid), Offset: m.Offset, Count: m.Count}
	case refwire.Rread:
		return p9p.MessageRread{Data: m.Payload()}
	case refwire.Twrite:
		return p9p.MessageTwrite{Fid: p9p.Fid(m.Fid), Offset: m.Offset, Data: m.Payload()}
	case refwire.Rwrite:
		return p9p.MessageRwrite{Count: m.Count}
	case refwire.Tclunk:
		return p9p.MessageTclunk{Fid: p9p.Fid(m.Fid)}
	case refwire.Rclunk:
		return p9p.MessageRclunk{}
	case refwire.Tremove:
		return p9p.MessageTremove{Fid: p9p.Fid(m.Fid)}
	case refwire.Rremove:
		return p9p.MessageRremove{}
	case refwire.Tstat:
		return p9p.MessageTstat{Fid: p9p.Fid(m.Fid)}
	case refwire.Rstat:
		return p9p.MessageRstat{Stat: ToDir(m.Stat, loc)}
	case refwire.Twstat:
		return p9p.MessageTwstat{Fid: p9p.Fid(m.Fid), Stat: ToDir(m.Stat, loc)}
	case refwire.Rwstat:
		return p9p.MessageRwstat{}
	}
	panic(fmt.Sprintf("gen: no library message for kind %d", m.Kind))
}

func ToFcall(m *refwire.Msg, loc int) *p9p.Fcall {
	return &p9p.Fcall{Type: p9p.FcallType(m.Kind), Tag: p9p.Tag(m.Tag), Message: ToMessage(m, loc)}
}

func bs(ss []string) []harn.B {
	var out []harn.B
	for _, s := range ss {
		out = append(out, append(harn.B{}, s...))
	}
	return out
}

// FromMessage converts a library message (value or pointer form) back.
// The result is in canonical form (see refwire.Canon).
func FromMessage(kind uint8, tag uint16, msg p9p.Message) (*refwire.Msg, error) {
	m := &refwire.Msg{Kind: kind, Tag: tag}
	switch v := msg.(type) {
	case p9p.MessageTversion:
		m.MSize, m.Version = v.MSize, nb(v.Version)
	case p9p.MessageRversion:
		m.MSize, m.Version = v.MSize, nb(v.Version)
	case p9p.MessageTauth:
		m.Afid, m.Uname, m.Aname = uint32(v.Afid), nb(v.Uname), nb(v.Aname)
	case p9p.MessageRauth:
		m.Qid = FromQid(v.Qid)
	case p9p.MessageTattach:
		m.Fid, m.Afid, m.Uname, m.Aname = uint32(v.Fid), uint32(v.Afid), nb(v.Uname), nb(v.Aname)
	case p9p.MessageRattach:
		m.Qid = FromQid(v.Qid)
	case p9p.MessageRerror:
		m.Ename = nb(v.Ename)
	case p9p.MessageTflush:
		m.Oldtag = uint16(v.Oldtag)
	case p9p.MessageRflush, p9p.MessageRclunk, p9p.MessageRremove, p9p.MessageRwstat:
	case p9p.MessageTwalk:
		m.Fid, m.Newfid, m.Wnames = uint32(v.Fid), uint32(v.Newfid), bs(v.Wnames)
	case p9p.MessageRwalk:
		for _, q := range v.Qids {
			m.Qids = append(m.Qids, FromQid(q))
		}
	case p9p.MessageTopen:
		m.Fid, m.Mode = uint32(v.Fid), uint8(v.Mode)
	case p9p.MessageRopen:
		m.Qid, m.IOUnit = FromQid(v.Qid), v.IOUnit
	case p9p.MessageTcreate:
		m.Fid, m.Name, m.Perm, m.Mode = uint32(v.Fid), nb(v.Name), v.Perm, uint8(v.Mode)
	case p9p.MessageRcreate:
		m.Qid, m.IOUnit = FromQid(v.Qid), v.IOUnit
	case p9p.MessageTread:
		m.Fid, m.Offset, m.Count = uint32(v.Fid), v.Offset, v.Count
	case p9p.MessageRread:
		m.Data = nb(string(v.Data))
	case p9p.MessageTwrite:
		m.Fid, m.Offset, m.Data = uint32(v.Fid), v.Offset, nb(string(v.Data))
	case p9p.MessageRwrite:
		m.Count = v.Count
	case p9p.MessageTclunk:
		m.Fid = uint32(v.Fid)
	case p9p.MessageTremove:
		m.Fid = uint32(v.Fid)
	case p9p.MessageTstat:
		m.Fid = uint32(v.Fid)
	case p9p.MessageRstat:
		m.Stat = FromDir(v.Stat)
	case p9p.MessageTwstat:
		m.Fid, m.Stat = uint32(v.Fid), FromDir(v.Stat)
	default:
		return nil, fmt.Errorf("unexpected message value %T", msg)
	}
	if msg.Type() != p9p.FcallType(kind) {
		return nil, fmt.Errorf("message %T does not match type byte %d", msg, kind)
	}
	return m, nil
}

func FromFcall(fc *p9p.Fcall) (*refwire.Msg, error) {
	if fc.Message == nil {
		return nil, fmt.Errorf("fcall has nil message")
	}
	return FromMessage(uint8(fc.Type), uint16(fc.Tag), fc.Message)
}
