// Package peer is a scripted raw 9P endpoint: it writes frames built by the
// reference encoder and parses inbound frames with the reference decoder, so
// that a codec bug in the library cannot hide a framing or multiplexing bug.
package peer

import (
	"encoding/binary"
	"fmt"
	"io"
	"sync"
	"time"

	"verifharness/internal/harn"
	"verifharness/internal/memconn"
	"verifharness/internal/refwire"
)

// Frame is one inbound frame.
type Frame struct {
	Raw []byte       // the whole frame including its size prefix
	Msg *refwire.Msg // nil if the body did not decode
	Err error
	Seq int
}

type Peer struct {
	End *memconn.End

	mu     sync.Mutex
	frames []Frame
	cond   *sync.Cond
	rdErr  error // set when the reader stops
	taken  int   // frames[:taken] were consumed by Next
	paused bool  // the reader does not consume bytes while set (a client that stopped reading)
}

// Pause makes the peer stop reading from the connection (after the frame in
// progress); Resume undoes it.
func (p *Peer) Pause()  { p.mu.Lock(); p.paused = true; p.mu.Unlock() }
func (p *Peer) Resume() { p.mu.Lock(); p.paused = false; p.cond.Broadcast(); p.mu.Unlock() }

// New starts a reader on end.
func New(end *memconn.End) *Peer {
	p := &Peer{End: end}
	p.cond = sync.NewCond(&p.mu)
	go p.reader()
	return p
}

func (p *Peer) reader() {
	seq := 0
	for {
		p.mu.Lock()
		for p.paused {
			p.cond.Wait()
		}
		p.mu.Unlock()
		hdr := make([]byte, 4)
		if _, err := io.ReadFull(p.End, hdr); err != nil {
			p.stop(err)
			return
		}
		n := int(binary.LittleEndian.Uint32(hdr))
		if n < 4 || n > 1<<26 {
			p.stop(fmt.Errorf("peer: impossible frame size %d", n))
			return
		}
		body := make([]byte, n-4)
		if _, err := io.ReadFull(p.End, body); err != nil {
			p.stop(err)
			return
		}
		m, _, err := refwire.Decode(body)
		p.mu.Lock()
		p.frames = append(p.frames, Frame{Raw: append(hdr, body...), Msg: m, Err: err, Seq: seq})
		seq++
		p.cond.Broadcast()
		p.mu.Unlock()
	}
}

func (p *Peer) stop(err error) {
	p.mu.Lock()
	p.rdErr = err
	p.cond.Broadcast()
	p.mu.Unlock()
}

// Send writes a well-formed frame for m.
func (p *Peer) Send(m *refwire.Msg) error {
	_, err := p.End.Write(refwire.Frame(m))
	return err
}

// SendRaw writes arbitrary bytes.
func (p *Peer) SendRaw(b []byte) error {
	_, err := p.End.Write(b)
	return err
}

// Next returns the next unconsumed inbound frame, waiting up to d.
// ok=false: timeout or the stream ended (err says which; nil = timeout).
func (p *Peer) Next(d time.Duration) (f Frame, ok bool, err error) {
	deadline := time.Now().Add(d)
	p.mu.Lock()
	defer p.mu.Unlock()
	for p.taken >= len(p.frames) {
		if p.rdErr != nil {
			return Frame{}, false, p.rdErr
		}
		left := time.Until(deadline)
		if left <= 0 {
			return Frame{}, false, nil
		}
		t := time.AfterFunc(left, func() { p.mu.Lock(); p.cond.Broadcast(); p.mu.Unlock() })
		p.cond.Wait()
		t.Stop()
	}
	f = p.frames[p.taken]
	p.taken++
	return f, true, nil
}

// Pending reports how many frames have arrived and not been consumed.
func (p *Peer) Pending() int {
	p.mu.Lock()
	defer p.mu.Unlock()
	return len(p.frames) - p.taken
}

// ReadErr reports why the reader stopped (nil while it is running).
func (p *Peer) ReadErr() error {
	p.mu.Lock()
	defer p.mu.Unlock()
	return p.rdErr
}

// Handshake performs the client side of version negotiation.
func (p *Peer) Handshake(msize uint32, d time.Duration) (*refwire.Msg, error) {
	if err := p.Send(&refwire.Msg{Kind: refwire.Tversion, Tag: 0xFFFF, MSize: msize, Version: harn.B("9P2000")}); err != nil {
		return nil, err
	}
	f, ok, err := p.Next(d)
	if !ok {
		return nil, fmt.Errorf("no Rversion: %v", err)
	}
	if f.Msg == nil || f.Msg.Kind != refwire.Rversion {
		return nil, fmt.Errorf("expected Rversion, got %v (%v)", f.Msg, f.Err)
	}
	return f.Msg, nil
}
