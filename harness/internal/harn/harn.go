// Package harn is the glue shared by every harness package: it wraps
// rapid.Check so that each generated case is (1) pure data that can be
// written out as JSON, (2) journalled before it is executed (so that a
// library goroutine that panics and kills the process still leaves a replay
// behind), (3) counted and classified for the evidence file, and (4)
// re-executable from a JSON replay / regression file without rapid.
package harn

import (
	"encoding/hex"
	"encoding/json"
	"fmt"
	"hash/fnv"
	"os"
	"path/filepath"
	"sort"
	"strconv"
	"strings"
	"sync"
	"testing"
	"unicode/utf8"

	"pgregory.net/rapid"
)

// Result is what executing one case yields.
type Result struct {
	Err        error    // non-nil: the property was violated on this case
	NonTrivial bool     // the case satisfies the property's stated non-triviality rule
	Classes    []string // histogram buckets this case falls in
	Known      []string // keys of known findings observed (never a violation)
	Skip       bool     // the case was discarded (counted, not evaluated)
}

func Fail(format string, a ...any) Result {
	return Result{Err: fmt.Errorf(format, a...)}
}

// B is a byte string that survives JSON (Go strings that are not UTF-8 do not).
type B []byte

func (b B) MarshalJSON() ([]byte, error) {
	ok := utf8.Valid(b)
	if ok {
		for _, c := range b {
			if c < 0x20 || c == 0x7f {
				ok = false
				break
			}
		}
	}
	if ok {
		return json.Marshal("s:" + string(b))
	}
	return json.Marshal("x:" + hex.EncodeToString(b))
}

func (b *B) UnmarshalJSON(p []byte) error {
	var s string
	if err := json.Unmarshal(p, &s); err != nil {
		return err
	}
	switch {
	case strings.HasPrefix(s, "s:"):
		*b = B(s[2:])
	case strings.HasPrefix(s, "x:"):
		d, err := hex.DecodeString(s[2:])
		if err != nil {
			return err
		}
		*b = B(d)
	default:
		return fmt.Errorf("bad B %q", s)
	}
	return nil
}

func (b B) S() string { return string(b) }

// Blob describes a (possibly large) byte payload compactly: N bytes,
// byte i = K + i*7 (mod 256), so a prefix of a blob is recognisable.
type Blob struct {
	N int
	K byte
}

func (b Blob) Bytes() []byte {
	if b.N == 0 {
		return nil
	}
	p := make([]byte, b.N)
	for i := range p {
		p[i] = b.K + byte(i*7)
	}
	return p
}

type stats struct {
	mu          sync.Mutex
	evaluations int
	skipped     int
	nontrivial  map[uint64]struct{}
	classes     map[string]int
	samples     []json.RawMessage
	known       map[string]int
	perTest     map[string]int
	sampled     map[string]int
}

var st = stats{
	nontrivial: map[uint64]struct{}{},
	classes:    map[string]int{},
	known:      map[string]int{},
	perTest:    map[string]int{},
	sampled:    map[string]int{},
}

const maxSamples = 10

func record(test string, js []byte, r Result) {
	st.mu.Lock()
	defer st.mu.Unlock()
	if r.Skip {
		st.skipped++
		return
	}
	st.evaluations++
	st.perTest[test]++
	for _, c := range r.Classes {
		st.classes[c]++
	}
	for _, k := range r.Known {
		st.known[k]++
	}
	if r.NonTrivial {
		h := fnv.New64a()
		h.Write([]byte(test))
		h.Write(js)
		k := h.Sum64()
		if _, ok := st.nontrivial[k]; !ok {
			st.nontrivial[k] = struct{}{}
			// keep a spread of samples: the first few distinct non-trivial cases,
			// preferring different tests
			if st.sampled[test] < 2 && len(st.samples) < maxSamples && len(js) < 8192 {
				st.sampled[test]++
				wrapped, _ := json.Marshal(map[string]any{"test": test, "case": json.RawMessage(js)})
				st.samples = append(st.samples, wrapped)
			}
		}
	}
}

// Count adds to a histogram bucket outside of a case (e.g. per-step classes).
func Count(class string, n int) {
	st.mu.Lock()
	st.classes[class] += n
	st.mu.Unlock()
}

// AddEval registers evaluations made outside Check (enumerations).
func AddEval(test string, js []byte, r Result) { record(test, js, r) }

func dump() {
	path := os.Getenv("VERIF_STATS")
	if path == "" {
		return
	}
	st.mu.Lock()
	defer st.mu.Unlock()
	hashes := make([]string, 0, len(st.nontrivial))
	for k := range st.nontrivial {
		hashes = append(hashes, strconv.FormatUint(k, 16))
	}
	sort.Strings(hashes)
	out := map[string]any{
		"evaluations": st.evaluations,
		"skipped":     st.skipped,
		"nontrivial":  hashes,
		"classes":     st.classes,
		"samples":     st.samples,
		"known":       st.known,
		"per_test":    st.perTest,
	}
	b, _ := json.Marshal(out)
	_ = os.WriteFile(path, b, 0o644)
}

// Main is called from each package's TestMain.
func Main(m *testing.M) {
	code := m.Run()
	dump()
	os.Exit(code)
}

type runner func(js []byte) (Result, error)

var registry = map[string]runner{}

// Register makes a case type replayable by name.
func Register[C any](name string, run func(C) Result) {
	registry[name] = func(js []byte) (Result, error) {
		var c C
		if err := json.Unmarshal(js, &c); err != nil {
			return Result{}, err
		}
		return run(c), nil
	}
}

var (
	journalMu   sync.Mutex
	journalFile *os.File
	journalLen  int
)

// journal records the case about to run, so that a process killed by a panic
// in a library goroutine still leaves a replayable case behind.  The file is
// kept open and overwritten in place (one or two syscalls per case).
func journal(test string, js []byte) {
	path := os.Getenv("VERIF_JOURNAL")
	if path == "" {
		return
	}
	buf := make([]byte, 0, len(js)+len(test)+24)
	buf = append(buf, `{"test":`...)
	q, _ := json.Marshal(test)
	buf = append(buf, q...)
	buf = append(buf, `,"case":`...)
	buf = append(buf, js...)
	buf = append(buf, '}')
	journalMu.Lock()
	defer journalMu.Unlock()
	if journalFile == nil {
		f, err := os.OpenFile(path, os.O_CREATE|os.O_WRONLY|os.O_TRUNC, 0o644)
		if err != nil {
			return
		}
		journalFile = f
	}
	journalFile.WriteAt(buf, 0)
	if len(buf) < journalLen {
		journalFile.Truncate(int64(len(buf)))
	}
	journalLen = len(buf)
}

func faillog(test string, js []byte, err error) {
	path := os.Getenv("VERIF_FAILLOG")
	if path == "" {
		return
	}
	wrapped, _ := json.Marshal(map[string]any{"test": test, "case": json.RawMessage(js), "error": err.Error()})
	f, e := os.OpenFile(path, os.O_APPEND|os.O_CREATE|os.O_WRONLY, 0o644)
	if e != nil {
		return
	}
	defer f.Close()
	f.Write(append(wrapped, '\n'))
}

// Check runs gen→run under rapid. name must have been Register-ed with the
// same run function so that failures can be replayed.
func Check[C any](t *testing.T, name string, gen func(*rapid.T) C, run func(C) Result) {
	t.Helper()
	if _, ok := registry[name]; !ok {
		Register(name, run)
	}
	rapid.Check(t, func(rt *rapid.T) {
		c := gen(rt)
		js, err := json.Marshal(c)
		if err != nil {
			panic(err)
		}
		journal(name, js)
		r := run(c)
		record(name, js, r)
		for _, k := range r.Known {
			rt.Logf("VERIF-KNOWN %s", k)
		}
		if r.Err != nil {
			faillog(name, js, r.Err)
			rt.Fatalf("VERIF-FAIL test=%s: %v\nVERIF-CASE %s", name, r.Err, js)
		}
	})
}

// RunOne executes a single explicit case (enumeration / hand-written regression).
func RunOne[C any](t *testing.T, name string, c C, run func(C) Result) {
	t.Helper()
	if _, ok := registry[name]; !ok {
		Register(name, run)
	}
	js, _ := json.Marshal(c)
	journal(name, js)
	r := run(c)
	record(name, js, r)
	if r.Err != nil {
		faillog(name, js, r.Err)
		t.Fatalf("VERIF-FAIL test=%s: %v\nVERIF-CASE %s", name, r.Err, js)
	}
}

type fileCase struct {
	Test   string          `json:"test"`
	Case   json.RawMessage `json:"case"`
	Repeat int             `json:"repeat,omitempty"`
	Prop   string          `json:"property,omitempty"`
	Note   string          `json:"note,omitempty"`
}

// ReplayFile runs the case stored in path. The returned bool is false when
// the test named in the file is not one of this package's.
func ReplayFile(t *testing.T, path string) bool {
	t.Helper()
	raw, err := os.ReadFile(path)
	if err != nil {
		t.Fatalf("HARNESS-ERROR cannot read %s: %v", path, err)
	}
	var fc fileCase
	if err := json.Unmarshal(raw, &fc); err != nil {
		t.Fatalf("HARNESS-ERROR cannot parse %s: %v", path, err)
	}
	run, ok := registry[fc.Test]
	if !ok {
		return false
	}
	n := fc.Repeat
	if n <= 0 {
		n = 1
	}
	for i := 0; i < n; i++ {
		journal(fc.Test, fc.Case)
		r, err := run(fc.Case)
		if err != nil {
			t.Fatalf("HARNESS-ERROR bad case in %s: %v", path, err)
		}
		record(fc.Test, fc.Case, r)
		for _, k := range r.Known {
			t.Logf("VERIF-KNOWN %s", k)
		}
		if r.Err != nil {
			faillog(fc.Test, fc.Case, r.Err)
			t.Fatalf("VERIF-FAIL test=%s file=%s: %v\nVERIF-CASE %s", fc.Test, path, r.Err, fc.Case)
		}
	}
	return true
}

// Replay is the body of every package's TestReplay: it runs $VERIF_REPLAY.
func Replay(t *testing.T) {
	path := os.Getenv("VERIF_REPLAY")
	if path == "" {
		t.Skip("no VERIF_REPLAY")
	}
	if !ReplayFile(t, path) {
		t.Fatalf("HARNESS-ERROR replay file %s names a test unknown to this package", path)
	}
}

// Regress is the body of every package's TestRegress: it runs every saved
// case under $VERIF_REGRESS_DIR that belongs to this package.
func Regress(t *testing.T) {
	dir := os.Getenv("VERIF_REGRESS_DIR")
	if dir == "" {
		t.Skip("no VERIF_REGRESS_DIR")
	}
	files, _ := filepath.Glob(filepath.Join(dir, "*.json"))
	sort.Strings(files)
	n := 0
	for _, f := range files {
		if ReplayFile(t, f) {
			n++
		}
	}
	Count("regress_files", n)
}

// Tier reports the tier the driver asked for.
func Tier() string {
	if v := os.Getenv("VERIF_TIER"); v != "" {
		return v
	}
	return "quick"
}

func Thorough() bool { return Tier() == "thorough" }
