// Package refwire is an independent reference implementation of the 9P2000
// wire format, written from intro(5), stat(5) and the per-message manual
// pages.  It deliberately imports nothing from go-p9p: message layouts are
// spelled out field by field with explicit widths, and the type numbers are
// a literal table, so that a symmetric encode/decode error in the library
// (which a round-trip cannot see) shows up as a byte difference.
package refwire

import (
	"encoding/binary"
	"errors"
	"fmt"

	"verifharness/internal/harn"
)

// 9P2000 message type numbers (intro(5), fcall.h).
const (
	Tversion = 100
	Rversion = 101
	Tauth    = 102
	Rauth    = 103
	Tattach  = 104
	Rattach  = 105
	Terror   = 106 // illegal
	Rerror   = 107
	Tflush   = 108
	Rflush   = 109
	Twalk    = 110
	Rwalk    = 111
	Topen    = 112
	Ropen    = 113
	Tcreate  = 114
	Rcreate  = 115
	Tread    = 116
	Rread    = 117
	Twrite   = 118
	Rwrite   = 119
	Tclunk   = 120
	Rclunk   = 121
	Tremove  = 122
	Rremove  = 123
	Tstat    = 124
	Rstat    = 125
	Twstat   = 126
	Rwstat   = 127
)

// Kinds lists the 27 legal message kinds.
var Kinds = []uint8{100, 101, 102, 103, 104, 105, 107, 108, 109, 110, 111, 112, 113, 114, 115, 116, 117, 118, 119, 120, 121, 122, 123, 124, 125, 126, 127}

var KindName = map[uint8]string{
	100: "Tversion", 101: "Rversion", 102: "Tauth", 103: "Rauth", 104: "Tattach", 105: "Rattach",
	107: "Rerror", 108: "Tflush", 109: "Rflush", 110: "Twalk", 111: "Rwalk", 112: "Topen", 113: "Ropen",
	114: "Tcreate", 115: "Rcreate", 116: "Tread", 117: "Rread", 118: "Twrite", 119: "Rwrite", 120: "Tclunk",
	121: "Rclunk", 122: "Tremove", 123: "Rremove", 124: "Tstat", 125: "Rstat", 126: "Twstat", 127: "Rwstat",
}

// Q is a qid: type[1] version[4] path[8].
type Q struct {
	Type    uint8
	Version uint32
	Path    uint64
}

// D is a stat record (stat(5)).
type D struct {
	Type    uint16
	Dev     uint32
	Qid     Q
	Mode    uint32
	Atime   uint32
	Mtime   uint32
	Length  uint64
	Name    harn.B
	UID     harn.B
	GID     harn.B
	MUID    harn.B
	AtimeNs int `json:",omitempty"` // only ever non-zero on a value converted back from the library
	MtimeNs int `json:",omitempty"`
	// non-zero only on a value converted back from the library whose time lies
	// outside [0, 2^32) seconds (the wire cannot carry it): Unix()>>32
	AtimeX int64 `json:",omitempty"`
	MtimeX int64 `json:",omitempty"`
}

// Msg is a neutral description of any 9P2000 message: a flat union.  Only
// the fields of its Kind are meaningful; Canon zeroes the others.
type Msg struct {
	Kind uint8
	Tag  uint16

	MSize   uint32   `json:",omitempty"`
	Version harn.B   `json:",omitempty"`
	Afid    uint32   `json:",omitempty"`
	Uname   harn.B   `json:",omitempty"`
	Aname   harn.B   `json:",omitempty"`
	Qid     Q        `json:",omitempty"`
	Fid     uint32   `json:",omitempty"`
	Ename   harn.B   `json:",omitempty"`
	Oldtag  uint16   `json:",omitempty"`
	Newfid  uint32   `json:",omitempty"`
	Wnames  []harn.B `json:",omitempty"`
	Qids    []Q      `json:",omitempty"`
	Mode    uint8    `json:",omitempty"`
	IOUnit  uint32   `json:",omitempty"`
	Name    harn.B   `json:",omitempty"`
	Perm    uint32   `json:",omitempty"`
	Offset  uint64   `json:",omitempty"`
	Count   uint32   `json:",omitempty"`
	Data    harn.B   `json:",omitempty"` // explicit payload (small)
	Blob    harn.Blob `json:",omitempty"` // or a generated payload (used when Data is empty)
	Stat    D        `json:",omitempty"`
}

// Payload returns the data bytes of a Rread/Twrite.
func (m *Msg) Payload() []byte {
	if len(m.Data) > 0 {
		return m.Data
	}
	return m.Blob.Bytes()
}

// Field locates a length or count field inside an encoding (for mutation).
type Field struct {
	Off, Width int
	What       string
}

type w struct {
	b      []byte
	fields []Field
}

func (w *w) mark(width int, what string) {
	w.fields = append(w.fields, Field{Off: len(w.b), Width: width, What: what})
}

func (w *w) u8(v uint8)   { w.b = append(w.b, v) }
func (w *w) u16(v uint16) { w.b = binary.LittleEndian.AppendUint16(w.b, v) }
func (w *w) u32(v uint32) { w.b = binary.LittleEndian.AppendUint32(w.b, v) }
func (w *w) u64(v uint64) { w.b = binary.LittleEndian.AppendUint64(w.b, v) }
func (w *w) str(s []byte) {
	if len(s) > 0xFFFF {
		panic("refwire: string too long for the wire")
	}
	w.mark(2, "strlen")
	w.u16(uint16(len(s)))
	w.b = append(w.b, s...)
}
func (w *w) qid(q Q) { w.u8(q.Type); w.u32(q.Version); w.u64(q.Path) }

// statBody is everything after the stat record's own size[2].
func statBody(d D) []byte {
	var x w
	x.u16(d.Type)
	x.u32(d.Dev)
	x.qid(d.Qid)
	x.u32(d.Mode)
	x.u32(d.Atime)
	x.u32(d.Mtime)
	x.u64(d.Length)
	x.str(d.Name)
	x.str(d.UID)
	x.str(d.GID)
	x.str(d.MUID)
	return x.b
}

// StatSize is the total encoded size of a stat record including its size[2].
func StatSize(d D) int { return 2 + 39 + 8 + len(d.Name) + len(d.UID) + len(d.GID) + len(d.MUID) }

// EncodeStat: size[2] followed by the body; size counts the bytes after itself.
func EncodeStat(d D) []byte {
	body := statBody(d)
	if len(body) > 0xFFFF {
		panic("refwire: stat too long for the wire")
	}
	var x w
	x.u16(uint16(len(body)))
	x.b = append(x.b, body...)
	return x.b
}

func EncodeQid(q Q) []byte { var x w; x.qid(q); return x.b }

// stat writes n[2] + stat record and records the size fields for mutation.
func (x *w) stat(d D) {
	s, fs := EncodeStatMap(d)
	x.mark(2, "statouter")
	x.u16(uint16(len(s)))
	base := len(x.b)
	for _, f := range fs {
		f.Off += base
		x.fields = append(x.fields, f)
	}
	x.b = append(x.b, s...)
}

// EncodeStatMap is EncodeStat plus the positions of its length fields.
func EncodeStatMap(d D) ([]byte, []Field) {
	var x w
	x.mark(2, "statsize")
	x.u16(0)
	x.u16(d.Type)
	x.u32(d.Dev)
	x.qid(d.Qid)
	x.u32(d.Mode)
	x.u32(d.Atime)
	x.u32(d.Mtime)
	x.u64(d.Length)
	x.str(d.Name)
	x.str(d.UID)
	x.str(d.GID)
	x.str(d.MUID)
	binary.LittleEndian.PutUint16(x.b, uint16(len(x.b)-2))
	return x.b, x.fields
}

// EncodeMap is Encode plus the positions of every length/count field.
func EncodeMap(m *Msg) ([]byte, []Field) {
	x := encode(m)
	return x.b, x.fields
}

// Encode returns type[1] tag[2] body — the message without the size[4] prefix.
func Encode(m *Msg) []byte { return encode(m).b }

func encode(m *Msg) *w {
	x := &w{}
	x.u8(m.Kind)
	x.u16(m.Tag)
	switch m.Kind {
	case Tversion, Rversion: // msize[4] version[s]
		x.u32(m.MSize)
		x.str(m.Version)
	case Tauth: // afid[4] uname[s] aname[s]
		x.u32(m.Afid)
		x.str(m.Uname)
		x.str(m.Aname)
	case Rauth: // aqid[13]
		x.qid(m.Qid)
	case Tattach: // fid[4] afid[4] uname[s] aname[s]
		x.u32(m.Fid)
		x.u32(m.Afid)
		x.str(m.Uname)
		x.str(m.Aname)
	case Rattach: // qid[13]
		x.qid(m.Qid)
	case Rerror: // ename[s]
		x.str(m.Ename)
	case Tflush: // oldtag[2]
		x.u16(m.Oldtag)
	case Rflush:
	case Twalk: // fid[4] newfid[4] nwname[2] nwname*(wname[s])
		x.u32(m.Fid)
		x.u32(m.Newfid)
		if len(m.Wnames) > 0xFFFF {
			panic("refwire: too many names")
		}
		x.mark(2, "nwname")
		x.u16(uint16(len(m.Wnames)))
		for _, n := range m.Wnames {
			x.str(n)
		}
	case Rwalk: // nwqid[2] nwqid*(wqid[13])
		if len(m.Qids) > 0xFFFF {
			panic("refwire: too many qids")
		}
		x.mark(2, "nwqid")
		x.u16(uint16(len(m.Qids)))
		for _, q := range m.Qids {
			x.qid(q)
		}
	case Topen: // fid[4] mode[1]
		x.u32(m.Fid)
		x.u8(m.Mode)
	case Ropen, Rcreate: // qid[13] iounit[4]
		x.qid(m.Qid)
		x.u32(m.IOUnit)
	case Tcreate: // fid[4] name[s] perm[4] mode[1]
		x.u32(m.Fid)
		x.str(m.Name)
		x.u32(m.Perm)
		x.u8(m.Mode)
	case Tread: // fid[4] offset[8] count[4]
		x.u32(m.Fid)
		x.u64(m.Offset)
		x.u32(m.Count)
	case Rread: // count[4] data[count]
		p := m.Payload()
		x.mark(4, "count")
		x.u32(uint32(len(p)))
		x.b = append(x.b, p...)
	case Twrite: // fid[4] offset[8] count[4] data[count]
		p := m.Payload()
		x.u32(m.Fid)
		x.u64(m.Offset)
		x.mark(4, "count")
		x.u32(uint32(len(p)))
		x.b = append(x.b, p...)
	case Rwrite: // count[4]
		x.u32(m.Count)
	case Tclunk, Tremove, Tstat: // fid[4]
		x.u32(m.Fid)
	case Rclunk, Rremove, Rwstat:
	case Rstat: // stat[n]: n[2] followed by the stat record (which has its own size[2])
		x.stat(m.Stat)
	case Twstat: // fid[4] stat[n]
		x.u32(m.Fid)
		x.stat(m.Stat)
	default:
		panic(fmt.Sprintf("refwire: cannot encode kind %d", m.Kind))
	}
	return x
}

// Frame returns size[4] + Encode(m); size counts itself.
func Frame(m *Msg) []byte {
	body := Encode(m)
	out := make([]byte, 4, 4+len(body))
	binary.LittleEndian.PutUint32(out, uint32(4+len(body)))
	return append(out, body...)
}

// FrameRaw wraps an arbitrary body with a correct size prefix.
func FrameRaw(body []byte) []byte {
	out := make([]byte, 4, 4+len(body))
	binary.LittleEndian.PutUint32(out, uint32(4+len(body)))
	return append(out, body...)
}

var ErrShort = errors.New("refwire: message body too short")
var ErrKind = errors.New("refwire: unknown message type")

type rd struct {
	b   []byte
	off int
	err error
}

func (r *rd) need(n int) bool {
	if r.err != nil {
		return false
	}
	if n < 0 || len(r.b)-r.off < n {
		r.err = ErrShort
		return false
	}
	return true
}
func (r *rd) u8() uint8 {
	if !r.need(1) {
		return 0
	}
	v := r.b[r.off]
	r.off++
	return v
}
func (r *rd) u16() uint16 {
	if !r.need(2) {
		return 0
	}
	v := binary.LittleEndian.Uint16(r.b[r.off:])
	r.off += 2
	return v
}
func (r *rd) u32() uint32 {
	if !r.need(4) {
		return 0
	}
	v := binary.LittleEndian.Uint32(r.b[r.off:])
	r.off += 4
	return v
}
func (r *rd) u64() uint64 {
	if !r.need(8) {
		return 0
	}
	v := binary.LittleEndian.Uint64(r.b[r.off:])
	r.off += 8
	return v
}
func (r *rd) bytes(n int) []byte {
	if !r.need(n) {
		return nil
	}
	v := append([]byte(nil), r.b[r.off:r.off+n]...)
	r.off += n
	return v
}
func (r *rd) str() harn.B { n := r.u16(); return harn.B(r.bytes(int(n))) }
func (r *rd) qid() Q      { return Q{Type: r.u8(), Version: r.u32(), Path: r.u64()} }

// stat reads size[2] then exactly that many bytes and parses the record from
// them; bytes of the record beyond the last field are ignored (the manual
// lets the record grow), a record too short for its fields is an error.
func (r *rd) stat() D {
	n := r.u16()
	body := r.bytes(int(n))
	if r.err != nil {
		return D{}
	}
	s := &rd{b: body}
	d := D{Type: s.u16(), Dev: s.u32(), Qid: s.qid(), Mode: s.u32(), Atime: s.u32(), Mtime: s.u32(), Length: s.u64(),
		Name: s.str(), UID: s.str(), GID: s.str(), MUID: s.str()}
	if s.err != nil {
		r.err = s.err
	}
	return d
}

// DecodeStat parses a stand-alone stat record and returns the bytes consumed.
func DecodeStat(b []byte) (D, int, error) {
	x := &rd{b: b}
	d := x.stat()
	return d, x.off, x.err
}

// Decode parses type[1] tag[2] body.  Trailing bytes after the body are not
// an error (it returns how many bytes were consumed); a body too short for
// its message, or an unknown type, is.
func Decode(b []byte) (*Msg, int, error) {
	x := &rd{b: b}
	m := &Msg{}
	m.Kind = x.u8()
	m.Tag = x.u16()
	if x.err != nil {
		return nil, 0, x.err
	}
	switch m.Kind {
	case Tversion, Rversion:
		m.MSize = x.u32()
		m.Version = x.str()
	case Tauth:
		m.Afid = x.u32()
		m.Uname = x.str()
		m.Aname = x.str()
	case Rauth, Rattach:
		m.Qid = x.qid()
	case Tattach:
		m.Fid = x.u32()
		m.Afid = x.u32()
		m.Uname = x.str()
		m.Aname = x.str()
	case Rerror:
		m.Ename = x.str()
	case Tflush:
		m.Oldtag = x.u16()
	case Rflush, Rclunk, Rremove, Rwstat:
	case Twalk:
		m.Fid = x.u32()
		m.Newfid = x.u32()
		n := int(x.u16())
		for i := 0; i < n && x.err == nil; i++ {
			m.Wnames = append(m.Wnames, x.str())
		}
	case Rwalk:
		n := int(x.u16())
		for i := 0; i < n && x.err == nil; i++ {
			m.Qids = append(m.Qids, x.qid())
		}
	case Topen:
		m.Fid = x.u32()
		m.Mode = x.u8()
	case Ropen, Rcreate:
		m.Qid = x.qid()
		m.IOUnit = x.u32()
	case Tcreate:
		m.Fid = x.u32()
		m.Name = x.str()
		m.Perm = x.u32()
		m.Mode = x.u8()
	case Tread:
		m.Fid = x.u32()
		m.Offset = x.u64()
		m.Count = x.u32()
	case Rread:
		n := x.u32()
		m.Data = x.bytes(int(n))
	case Twrite:
		m.Fid = x.u32()
		m.Offset = x.u64()
		n := x.u32()
		m.Data = x.bytes(int(n))
	case Rwrite:
		m.Count = x.u32()
	case Tclunk, Tremove, Tstat:
		m.Fid = x.u32()
	case Rstat:
		_ = x.u16()
		m.Stat = x.stat()
	case Twstat:
		m.Fid = x.u32()
		_ = x.u16()
		m.Stat = x.stat()
	default:
		return nil, 0, ErrKind
	}
	if x.err != nil {
		return nil, 0, x.err
	}
	return m, x.off, nil
}

// Canon returns a copy of m with only the fields of its kind kept, empty
// slices normalised to nil, and a Blob expanded into Data — the form in
// which two messages are compared.
func Canon(m *Msg) *Msg {
	c := &Msg{Kind: m.Kind, Tag: m.Tag}
	nb := func(b harn.B) harn.B {
		if len(b) == 0 {
			return nil
		}
		return append(harn.B(nil), b...)
	}
	switch m.Kind {
	case Tversion, Rversion:
		c.MSize, c.Version = m.MSize, nb(m.Version)
	case Tauth:
		c.Afid, c.Uname, c.Aname = m.Afid, nb(m.Uname), nb(m.Aname)
	case Rauth, Rattach:
		c.Qid = m.Qid
	case Tattach:
		c.Fid, c.Afid, c.Uname, c.Aname = m.Fid, m.Afid, nb(m.Uname), nb(m.Aname)
	case Rerror:
		c.Ename = nb(m.Ename)
	case Tflush:
		c.Oldtag = m.Oldtag
	case Twalk:
		c.Fid, c.Newfid = m.Fid, m.Newfid
		for _, n := range m.Wnames {
			c.Wnames = append(c.Wnames, append(harn.B{}, n...))
		}
	case Rwalk:
		c.Qids = append([]Q(nil), m.Qids...)
	case Topen:
		c.Fid, c.Mode = m.Fid, m.Mode
	case Ropen, Rcreate:
		c.Qid, c.IOUnit = m.Qid, m.IOUnit
	case Tcreate:
		c.Fid, c.Name, c.Perm, c.Mode = m.Fid, nb(m.Name), m.Perm, m.Mode
	case Tread:
		c.Fid, c.Offset, c.Count = m.Fid, m.Offset, m.Count
	case Rread:
		c.Data = nb(m.Payload())
	case Twrite:
		c.Fid, c.Offset, c.Data = m.Fid, m.Offset, nb(m.Payload())
	case Rwrite:
		c.Count = m.Count
	case Tclunk, Tremove, Tstat:
		c.Fid = m.Fid
	case Rstat:
		c.Stat = CanonStat(m.Stat)
	case Twstat:
		c.Fid, c.Stat = m.Fid, CanonStat(m.Stat)
	}
	return c
}

func CanonStat(d D) D {
	nb := func(b harn.B) harn.B {
		if len(b) == 0 {
			return nil
		}
		return append(harn.B(nil), b...)
	}
	d.Name, d.UID, d.GID, d.MUID = nb(d.Name), nb(d.UID), nb(d.GID), nb(d.MUID)
	return d
}
