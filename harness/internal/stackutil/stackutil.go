// Package stackutil wires a real client session to a real server over an
// in-memory connection, optionally forcing the negotiated msize.
package stackutil

import (
	"context"
	"encoding/binary"
	"net"
	"sync"
	"time"

	p9p "github.com/frobnitzem/go-p9p"

	"verifharness/internal/memconn"
)

// ForceMSize wraps conn so that the msize field of the first frame written
// through it (the client's Tversion, or a server's Rversion) is replaced by
// msize.  CSession can only propose 64 KiB itself; rewriting its proposal in
// flight is how the harness reaches every negotiated msize.
func ForceMSize(conn net.Conn, msize uint32) net.Conn {
	return &rewriteConn{Conn: conn, msize: msize}
}

type rewriteConn struct {
	net.Conn
	mu    sync.Mutex
	msize uint32
	seen  int // bytes of the first frame header seen so far
	done  bool
}

func (c *rewriteConn) Write(p []byte) (int, error) {
	c.mu.Lock()
	if !c.done {
		q := append([]byte(nil), p...)
		// the msize field occupies stream offsets 7..10
		for i := range q {
			off := c.seen + i
			if off >= 7 && off < 11 {
				var b [4]byte
				binary.LittleEndian.PutUint32(b[:], c.msize)
				q[i] = b[off-7]
			}
		}
		c.seen += len(p)
		if c.seen >= 11 {
			c.done = true
		}
		c.mu.Unlock()
		return c.Conn.Write(q)
	}
	c.mu.Unlock()
	return c.Conn.Write(p)
}

// Stack is a connected client/server pair.
type Stack struct {
	Client   p9p.Session
	CliEnd   *memconn.End
	SrvEnd   *memconn.End
	Cancel   context.CancelFunc
	ServeErr chan error
}

// Connect serves handler on one end and opens a client session on the other.
// msize 0 leaves the negotiation alone (64 KiB).
func Connect(handler p9p.Handler, msize uint32, opts memconn.Options) (*Stack, error) {
	a, b := memconn.NewPair(opts)
	ctx, cancel := context.WithCancel(context.Background())
	st := &Stack{CliEnd: a, SrvEnd: b, Cancel: cancel, ServeErr: make(chan error, 1)}
	go func() { st.ServeErr <- p9p.ServeConn(ctx, b, handler) }()
	var cconn net.Conn = a
	if msize != 0 {
		cconn = ForceMSize(a, msize)
	}
	type res struct {
		s   p9p.Session
		err error
	}
	ch := make(chan res, 1)
	go func() {
		s, err := p9p.CSession(ctx, cconn)
		ch <- res{s, err}
	}()
	select {
	case r := <-ch:
		if r.err != nil {
			st.Close()
			return nil, r.err
		}
		st.Client = r.s
		return st, nil
	case <-time.After(20 * time.Second):
		st.Close()
		return nil, context.DeadlineExceeded
	}
}

// Close tears the pair down; it does not wait for the server to finish.
func (st *Stack) Close() {
	st.Cancel()
	st.CliEnd.Close()
	st.SrvEnd.Close()
}
