// Package memconn provides an in-memory net.Conn pair for the harness.
//
// Buffered mode: each direction is an unbounded byte queue; Write never
// blocks, Read blocks until data, close or an injected fault.  Rendezvous
// mode: Write returns only after the peer has consumed the bytes (the
// semantics of net.Pipe, the transport used by the repository's own tests).
//
// Extras: a tap recording every Write, a read plan (the sizes in which queued
// bytes are handed to Read, so a generator controls the chunking), and fault
// injection at exact byte offsets of either stream.  Only behaviours a real
// net.Conn may exhibit are produced: no (0, nil) reads, no short write
// without an error.
package memconn

import (
	"errors"
	"io"
	"net"
	"os"
	"sync"
	"time"
)

type Options struct {
	Rendezvous     bool
	HonorDeadlines bool // buffered mode ignores deadlines unless set
	ReadChunk      int  // >0: no Read returns more than this many bytes (a transport that delivers in small pieces)
}

// half is one direction of the pair.
type half struct {
	mu   sync.Mutex
	cond *sync.Cond

	buf      []byte
	wclosed  bool // writing end closed: reader sees EOF after draining
	rclosed  bool // reading end closed: writer sees ErrClosedPipe
	nread    int64
	nwritten int64

	readPlan   []int
	failReadAt int64 // -1: none
	readErr    error
	failWrAt   int64 // -1: none
	writeErr   error

	writes [][]byte // tap
	abort  bool     // FailWriteNow: a Write blocked in rendezvous fails too (connection reset)

	rdeadline time.Time
	wdeadline time.Time
	rscale    int  // >1: read deadlines expire this many times sooner
	tempOnce  bool // the next Read fails once with a temporary, non-timeout net.Error
	opts      Options
	gen       int // bumped by deadline changes to wake sleepers
}

func newHalf(o Options) *half {
	h := &half{failReadAt: -1, failWrAt: -1, opts: o}
	h.cond = sync.NewCond(&h.mu)
	return h
}

type timeoutError struct{}

func (timeoutError) Error() string   { return "i/o timeout" }
func (timeoutError) Timeout() bool   { return true }
func (timeoutError) Temporary() bool { return true }

var errTimeout net.Error = timeoutError{}

// ErrTimeout is what a read/write past its deadline returns (wraps os.ErrDeadlineExceeded semantics).
var ErrTimeout = errTimeout

func (h *half) honor() bool { return h.opts.Rendezvous || h.opts.HonorDeadlines }

// waitUntil sleeps on cond until woken or the deadline passes; returns false on timeout.
func (h *half) wait(deadline time.Time) bool {
	if !h.honor() || deadline.IsZero() {
		h.cond.Wait()
		return true
	}
	d := time.Until(deadline)
	if d <= 0 {
		return false
	}
	t := time.AfterFunc(d, func() {
		h.mu.Lock()
		h.cond.Broadcast()
		h.mu.Unlock()
	})
	h.cond.Wait()
	t.Stop()
	return true
}

func (h *half) read(p []byte) (int, error) {
	h.mu.Lock()
	defer h.mu.Unlock()
	if len(p) == 0 {
		return 0, nil
	}
	for {
		if h.rclosed {
			return 0, io.ErrClosedPipe
		}
		if h.failReadAt >= 0 && h.nread >= h.failReadAt {
			return 0, h.readErr
		}
		if h.tempOnce {
			h.tempOnce = false
			return 0, tempError{}
		}
		if len(h.buf) > 0 {
			n := len(p)
			if n > len(h.buf) {
				n = len(h.buf)
			}
			if h.opts.ReadChunk > 0 && n > h.opts.ReadChunk {
				n = h.opts.ReadChunk
			}
			if len(h.readPlan) > 0 {
				if h.readPlan[0] < n {
					n = h.readPlan[0]
				}
				h.readPlan = h.readPlan[1:]
				if n < 1 {
					n = 1
				}
			}
			if h.failReadAt >= 0 && h.nread+int64(n) > h.failReadAt {
				n = int(h.failReadAt - h.nread)
			}
			copy(p, h.buf[:n])
			h.buf = h.buf[n:]
			h.nread += int64(n)
			h.cond.Broadcast()
			return n, nil
		}
		if h.wclosed {
			return 0, io.EOF
		}
		if h.honor() && !h.rdeadline.IsZero() && !time.Now().Before(h.rdeadline) {
			return 0, errTimeout
		}
		if !h.wait(h.rdeadline) {
			return 0, errTimeout
		}
	}
}

func (h *half) write(p []byte) (int, error) {
	h.mu.Lock()
	defer h.mu.Unlock()
	if h.wclosed || h.rclosed {
		return 0, io.ErrClosedPipe
	}
	if h.failWrAt >= 0 && h.nwritten >= h.failWrAt {
		return 0, h.writeErr
	}
	if h.honor() && !h.wdeadline.IsZero() && !time.Now().Before(h.wdeadline) {
		return 0, errTimeout // a write attempted after the deadline set on the connection
	}
	if len(p) == 0 {
		return 0, nil
	}
	n := len(p)
	var werr error
	if h.failWrAt >= 0 && h.nwritten+int64(n) > h.failWrAt {
		n = int(h.failWrAt - h.nwritten)
		werr = h.writeErr
	}
	h.writes = append(h.writes, append([]byte(nil), p[:n]...))
	h.buf = append(h.buf, p[:n]...)
	h.nwritten += int64(n)
	h.cond.Broadcast()
	if werr != nil {
		return n, werr
	}
	if h.opts.Rendezvous {
		// wait until the peer has consumed everything we queued
		target := h.nwritten
		// like net.Pipe: what the peer has not taken when the write gives up is never delivered
		giveUp := func(err error) (int, error) {
			left := target - h.nread
			if left > int64(len(h.buf)) {
				left = int64(len(h.buf))
			}
			h.buf = h.buf[:int64(len(h.buf))-left]
			h.nwritten -= left
			if k := len(h.writes) - 1; k >= 0 && left <= int64(len(h.writes[k])) {
				h.writes[k] = h.writes[k][:int64(len(h.writes[k]))-left]
			}
			return int(int64(n) - left), err
		}
		for h.nread < target {
			if h.abort {
				return giveUp(h.writeErr)
			}
			if h.rclosed || h.wclosed {
				return int(int64(n) - (target - h.nread)), io.ErrClosedPipe
			}
			if !h.wdeadline.IsZero() && !time.Now().Before(h.wdeadline) {
				return giveUp(errTimeout)
			}
			if !h.wait(h.wdeadline) {
				return giveUp(errTimeout)
			}
		}
	}
	return n, nil
}

// End is one end of the pair; it implements net.Conn.
type End struct {
	in, out *half
	name    string
	once    sync.Once
	// OnSetWriteDeadline, if set, is called from SetWriteDeadline: a point inside
	// Channel.WriteFcall after its entry checks and before anything is written
	OnSetWriteDeadline func()
}

func NewPair(o Options) (*End, *End) {
	ab, ba := newHalf(o), newHalf(o)
	return &End{in: ba, out: ab, name: "a"}, &End{in: ab, out: ba, name: "b"}
}

func (e *End) Read(p []byte) (int, error)  { return e.in.read(p) }
func (e *End) Write(p []byte) (int, error) { return e.out.write(p) }

func (e *End) Close() error {
	e.once.Do(func() {
		e.out.mu.Lock()
		e.out.wclosed = true
		e.out.cond.Broadcast()
		e.out.mu.Unlock()
		e.in.mu.Lock()
		e.in.rclosed = true
		e.in.cond.Broadcast()
		e.in.mu.Unlock()
	})
	return nil
}

// CloseWrite ends this end's outgoing stream (the peer reads EOF after
// draining) but leaves the incoming direction open.
func (e *End) CloseWrite() {
	e.out.mu.Lock()
	e.out.wclosed = true
	e.out.cond.Broadcast()
	e.out.mu.Unlock()
}

type addr string

func (a addr) Network() string { return "mem" }
func (a addr) String() string  { return string(a) }

func (e *End) LocalAddr() net.Addr  { return addr("mem-" + e.name) }
func (e *End) RemoteAddr() net.Addr { return addr("mem-peer-of-" + e.name) }

func (e *End) SetDeadline(t time.Time) error {
	e.SetReadDeadline(t)
	e.SetWriteDeadline(t)
	return nil
}

type tempError struct{}

func (tempError) Error() string   { return "memconn: resource temporarily unavailable" }
func (tempError) Timeout() bool   { return false }
func (tempError) Temporary() bool { return true }

// TempReadErrOnce makes the next Read on this end (also one that is already waiting) fail once
// with a net.Error that is temporary but not a timeout; nothing is lost, the following Read works.
func (e *End) TempReadErrOnce() {
	e.in.mu.Lock()
	e.in.tempOnce = true
	e.in.cond.Broadcast()
	e.in.mu.Unlock()
}

// ScaleReadDeadlines makes every read deadline set from now on expire k times sooner
// (a 30 s idle timeout becomes 30/k s): virtual time for idle-connection scenarios.
func (e *End) ScaleReadDeadlines(k int) {
	e.in.mu.Lock()
	e.in.rscale = k
	e.in.mu.Unlock()
}

func (e *End) SetReadDeadline(t time.Time) error {
	e.in.mu.Lock()
	if e.in.rscale > 1 && !t.IsZero() {
		if d := time.Until(t); d > 0 {
			t = time.Now().Add(d / time.Duration(e.in.rscale))
		}
	}
	e.in.rdeadline = t
	e.in.cond.Broadcast()
	e.in.mu.Unlock()
	return nil
}
func (e *End) SetWriteDeadline(t time.Time) error {
	if f := e.OnSetWriteDeadline; f != nil {
		f()
	}
	e.out.mu.Lock()
	e.out.wdeadline = t
	e.out.cond.Broadcast()
	e.out.mu.Unlock()
	return nil
}

// SetReadPlan sets the sizes of the next Read results on this end.
func (e *End) SetReadPlan(plan []int) {
	e.in.mu.Lock()
	e.in.readPlan = append([]int(nil), plan...)
	e.in.mu.Unlock()
}

// FailReadAt makes this end's Read return err once n bytes have been read.
func (e *End) FailReadAt(n int64, err error) {
	e.in.mu.Lock()
	e.in.failReadAt, e.in.readErr = n, err
	e.in.cond.Broadcast()
	e.in.mu.Unlock()
}

// FailReadNow makes this end's next Read fail (after what was already consumed).
func (e *End) FailReadNow(err error) {
	e.in.mu.Lock()
	e.in.failReadAt, e.in.readErr = e.in.nread, err
	e.in.cond.Broadcast()
	e.in.mu.Unlock()
}

// FailWriteAt makes this end's Write fail once n bytes have been written
// (a Write crossing the offset writes the bytes before it and returns err).
func (e *End) FailWriteAt(n int64, err error) {
	e.out.mu.Lock()
	e.out.failWrAt, e.out.writeErr = n, err
	e.out.mu.Unlock()
}

func (e *End) FailWriteNow(err error) {
	e.out.mu.Lock()
	e.out.failWrAt, e.out.writeErr = e.out.nwritten, err
	e.out.abort = true
	e.out.cond.Broadcast()
	e.out.mu.Unlock()
}

// Writes returns a copy of the tap: every Write this end made.
func (e *End) Writes() [][]byte {
	e.out.mu.Lock()
	defer e.out.mu.Unlock()
	out := make([][]byte, len(e.out.writes))
	for i, w := range e.out.writes {
		out[i] = append([]byte(nil), w...)
	}
	return out
}

// Written returns all bytes this end has written so far.
func (e *End) Written() []byte {
	e.out.mu.Lock()
	defer e.out.mu.Unlock()
	var out []byte
	for _, w := range e.out.writes {
		out = append(out, w...)
	}
	return out
}

// ResetTap forgets the recorded writes.
func (e *End) ResetTap() {
	e.out.mu.Lock()
	e.out.writes = nil
	e.out.mu.Unlock()
}

// NWritten / NRead report stream positions of this end.
func (e *End) NWritten() int64 { e.out.mu.Lock(); defer e.out.mu.Unlock(); return e.out.nwritten }
func (e *End) NRead() int64    { e.in.mu.Lock(); defer e.in.mu.Unlock(); return e.in.nread }

// Pending reports bytes written to this end's peer direction and not yet read by it.
func (e *End) Unread() int { e.in.mu.Lock(); defer e.in.mu.Unlock(); return len(e.in.buf) }

var ErrInjected = errors.New("memconn: injected I/O error")

// resetError is a permanent failure that implements net.Error (as *net.OpError
// does for ECONNRESET): neither a timeout nor temporary.
type resetError struct{}

func (resetError) Error() string   { return "memconn: connection reset by peer" }
func (resetError) Timeout() bool   { return false }
func (resetError) Temporary() bool { return false }

// ErrReset is a non-timeout, non-temporary net.Error.
var ErrReset net.Error = resetError{}

var _ net.Conn = (*End)(nil)
var _ = os.ErrDeadlineExceeded
