package ufsx

import (
	"fmt"
	"os"
	"path/filepath"
	"strings"
	"syscall"

	"pgregory.net/rapid"

	"verifharness/internal/harn"
)

type ConfCase struct {
	Ops   []Op
	Empty bool // the exported directory is empty (so that removing the root would succeed at the OS level)
	// FileRoot: the export is one regular file (ufs serves it as the attach point)
	FileRoot bool `json:",omitempty"`
	// EmptyRootArg: the server is created with root "" and the export as working directory
	EmptyRootArg bool `json:",omitempty"`
}

const sentinel = "SENTINEL-OUTSIDE-THE-EXPORT"

var hostile = []string{
	"..", "..", ".", "", "../x", "../outside.txt", "../export-evil", "../export-evil/secret.txt", "/etc/passwd", "/tmp/x",
	"a/../../x", "a/../../outside.txt", "..\\x", "\\", "a\x00b", "\x00", "....", "../", "..//", "./../outside.txt", "d/../../../outside.txt",
	"../../outside.txt", "../../../outside.txt", "../export", "../export/f", "export-evil", strings.Repeat("n", 300), strings.Repeat("../", 40) + "etc/passwd",
	".\xff.", "\xff..", ".\xff.\xff", "..\xff", "\xc0.\xc0.", // names that become ".." once invalid UTF-8 is dropped
}
var ordinary = []string{"a", "d", "x", "y", "f", "e", "new", "n2", "k"}

// names that move a renamed object upwards but (from deep enough) not out of the export
var upNames = []string{"../k2", "../../k2", "../d2", "../../d2", "../../../k2", "../k2/../../z"}

var permHi = []uint32{0x02000000 /*DMSYMLINK*/, 0x00200000 /*DMNAMEDPIPE*/, 0x00800000 /*DMDEVICE*/, 0x00100000 /*DMSOCKET*/, 0x40000000, 0x20000000, 0x04000000, 0x08000000 /*DMAUTH*/, 0x10000000 /*DMMOUNT*/}

func genName(t *rapid.T) harn.B {
	if rapid.IntRange(0, 2).Draw(t, "hostile") > 0 {
		return harn.B(rapid.SampledFrom(hostile).Draw(t, "hname"))
	}
	return harn.B(rapid.SampledFrom(ordinary).Draw(t, "oname"))
}

func genConfOp(t *rapid.T) Op {
	op := Op{Kind: rapid.SampledFrom([]string{"walk", "walk", "walk", "walk", "create", "create", "create", "rename", "rename", "rename", "open", "read", "write", "remove", "remove", "clunk", "fstat", "list", "chmod", "truncate", "attach", "touchroot"}).Draw(t, "kind")}
	op.Fid = uint32(rapid.IntRange(0, 6).Draw(t, "fid"))
	switch op.Kind {
	case "walk":
		op.Newfid = uint32(rapid.IntRange(1, 6).Draw(t, "newfid"))
		if rapid.IntRange(0, 4).Draw(t, "inplace") == 0 {
			op.Newfid = op.Fid
		}
		c := rapid.IntRange(0, 9).Draw(t, "nc")
		switch {
		case c < 1:
		case c < 5:
			// chains of ".." of every length, possibly followed by a target outside
			n := rapid.IntRange(1, 6).Draw(t, "ndd")
			for i := 0; i < n; i++ {
				op.Names = append(op.Names, harn.B(".."))
			}
			if rapid.Bool().Draw(t, "then") {
				op.Names = append(op.Names, harn.B(rapid.SampledFrom([]string{"outside.txt", "export-evil", "export", "etc", "a"}).Draw(t, "target")))
			}
		default:
			op.Names = rapid.SliceOfN(rapid.Custom(genName), 1, 4).Draw(t, "names")
		}
	case "create":
		op.Name = genName(t)
		op.Dir = rapid.IntRange(0, 2).Draw(t, "dir") == 0
		op.Perm = rapid.SampledFrom([]uint32{0644, 0755, 0600}).Draw(t, "perm")
		op.Mode = rapid.SampledFrom([]uint8{0, 1, 2, 0x12}).Draw(t, "mode")
		if rapid.IntRange(0, 3).Draw(t, "permhi") == 0 {
			op.PermHi = rapid.SampledFrom(permHi).Draw(t, "permhibits")
		}
		if rapid.IntRange(0, 7).Draw(t, "badutf") == 0 {
			op.Name = harn.B(rapid.SampledFrom([]string{".\xff.", "\xff..", ".\xff.\xff", "..\xff", "\xc0.\xc0."}).Draw(t, "badutfname"))
			op.Dir = rapid.IntRange(0, 3).Draw(t, "badutfdir") > 0
		}
	case "touchroot":
		op.Count = rapid.IntRange(0, 50).Draw(t, "secs")
	case "rename":
		op.Name = genName(t)
		if rapid.IntRange(0, 3).Draw(t, "up") == 0 {
			op.Name = harn.B(rapid.SampledFrom(upNames).Draw(t, "upname"))
		}
	case "attach":
		if rapid.Bool().Draw(t, "aname") {
			op.Name = genName(t) // the attach name: a server may ignore it, it must not let it select anything outside
		}
	case "open":
		op.Mode = rapid.SampledFrom([]uint8{0, 1, 2, 0x11, 0x40, 0x41, 0x42, 0x50}).Draw(t, "mode")
	case "read":
		op.Count = 4096
		op.Offset = rapid.SampledFrom([]int64{0, 1, -1, 1 << 40}).Draw(t, "off")
	case "write":
		op.Data = "overwritten-by-the-session"
		op.Offset = rapid.SampledFrom([]int64{0, 3, -1}).Draw(t, "off")
	case "chmod":
		op.Perm = rapid.SampledFrom([]uint32{0600, 0777, 0}).Draw(t, "perm")
	case "truncate":
		op.Length = rapid.SampledFrom([]uint64{0, 3, 100}).Draw(t, "len")
	}
	return op
}

func GenConf(t *rapid.T) ConfCase {
	var c ConfCase
	B := func(s ...string) []harn.B {
		var out []harn.B
		for _, x := range s {
			out = append(out, harn.B(x))
		}
		return out
	}
	c.Ops = []Op{
		{Kind: "attach", Fid: 0},
		{Kind: "walk", Fid: 0, Newfid: 1, Names: B("a")},
		{Kind: "walk", Fid: 0, Newfid: 2, Names: B("a", "d")},
		{Kind: "walk", Fid: 0, Newfid: 3, Names: B("f")},
		{Kind: "walk", Fid: 0, Newfid: 4, Names: B("a", "d", "y")},
		{Kind: "walk", Fid: 0, Newfid: 5},
		{Kind: "walk", Fid: 0, Newfid: 6, Names: B("a", "d", "k")},
	}
	c.Empty = rapid.IntRange(0, 4).Draw(t, "empty") == 0
	if c.Empty {
		c.Ops = []Op{{Kind: "attach", Fid: 0}, {Kind: "walk", Fid: 0, Newfid: 5}}
	}
	switch rapid.IntRange(0, 11).Draw(t, "rootkind") {
	case 0:
		c.FileRoot, c.Empty = true, false
		c.Ops = []Op{{Kind: "attach", Fid: 0}, {Kind: "walk", Fid: 0, Newfid: 5}, {Kind: "open", Fid: 5, Mode: rapid.SampledFrom([]uint8{0x40, 0x41, 0x42, 0}).Draw(t, "frmode")}, {Kind: "clunk", Fid: 5}}
	case 1:
		c.EmptyRootArg = true
	}
	max := 30
	if harn.Thorough() {
		max = 60
	}
	minLen := rapid.IntRange(1, max/2).Draw(t, "minlen")
	ops := rapid.SliceOfN(rapid.Custom(genConfOp), minLen, max).Draw(t, "ops")
	for i, op := range ops {
		c.Ops = append(c.Ops, op)
		switch {
		case op.Kind == "create" && strings.ContainsAny(string(op.Name), "\xff\xc0"):
			// whatever got created (or not) under such a name: use the fid at once
			c.Ops = append(c.Ops, Op{Kind: "list", Fid: op.Fid}, Op{Kind: "chmod", Fid: op.Fid, Perm: 0700}, Op{Kind: "walk", Fid: op.Fid, Newfid: uint32(rapid.IntRange(1, 6).Draw(t, "bnew")), Names: []harn.B{harn.B("outside.txt")}})
		case op.Kind == "rename" && rapid.Bool().Draw(t, fmt.Sprintf("follow%d", i)):
			// right after a rename: climb from the renamed fid, towards something outside
			w := Op{Kind: "walk", Fid: op.Fid, Newfid: uint32(rapid.IntRange(1, 6).Draw(t, "fnew"))}
			for k := rapid.IntRange(1, 4).Draw(t, "fdd"); k > 0; k-- {
				w.Names = append(w.Names, harn.B(".."))
			}
			w.Names = append(w.Names, harn.B(rapid.SampledFrom([]string{"outside.txt", "export-evil", "exportx", "other"}).Draw(t, "ftarget")))
			c.Ops = append(c.Ops, w)
			if rapid.Bool().Draw(t, "fuse") {
				c.Ops = append(c.Ops, Op{Kind: rapid.SampledFrom([]string{"open", "remove", "fstat", "list"}).Draw(t, "fusekind"), Fid: w.Newfid})
			}
		case op.Kind == "touchroot" || (c.Empty && op.Kind == "remove" && rapid.Bool().Draw(t, fmt.Sprintf("rootrm%d", i))):
			// a root fid obtained afresh (clone, ".." from below, or a new attach), then an attempt to remove it
			nf := uint32(rapid.IntRange(1, 6).Draw(t, "rnew"))
			switch rapid.IntRange(0, 2).Draw(t, "rhow") {
			case 0:
				c.Ops = append(c.Ops, Op{Kind: "clunk", Fid: nf}, Op{Kind: "walk", Fid: 0, Newfid: nf})
			case 1:
				c.Ops = append(c.Ops, Op{Kind: "clunk", Fid: nf}, Op{Kind: "attach", Fid: nf})
			default:
				c.Ops = append(c.Ops, Op{Kind: "walk", Fid: op.Fid, Newfid: nf, Names: B("..", "..", "..", "..")[:rapid.IntRange(1, 4).Draw(t, "rdd")]})
			}
			if rapid.IntRange(0, 2).Draw(t, "rdo") > 0 {
				c.Ops = append(c.Ops, Op{Kind: "remove", Fid: nf})
			} else {
				c.Ops = append(c.Ops, Op{Kind: "rename", Fid: nf, Name: harn.B(rapid.SampledFrom([]string{"moved", "../moved", "../export-evil/sub/moved"}).Draw(t, "rname"))})
			}
		}
	}
	return c
}

func inoOf(p string) (uint64, bool) {
	fi, err := os.Lstat(p)
	if err != nil {
		return 0, false
	}
	return fi.Sys().(*syscall.Stat_t).Ino, true
}

func RunConf(c ConfCase) harn.Result {
	w, err := newWorldOpt(func(top string) error {
		if err := os.WriteFile(filepath.Join(top, "outside.txt"), []byte(sentinel), 0644); err != nil {
			return err
		}
		if err := os.MkdirAll(filepath.Join(top, "export-evil", "sub"), 0755); err != nil {
			return err
		}
		if err := os.WriteFile(filepath.Join(top, "export-evil", "secret.txt"), []byte(sentinel+"-2"), 0644); err != nil {
			return err
		}
		if err := os.WriteFile(filepath.Join(top, "exportx"), []byte(sentinel+"-3"), 0644); err != nil {
			return err
		}
		if c.Empty {
			if err := os.RemoveAll(filepath.Join(top, "export")); err != nil {
				return err
			}
			if err := os.Mkdir(filepath.Join(top, "export"), 0755); err != nil {
				return err
			}
		}
		if c.FileRoot {
			if err := os.RemoveAll(filepath.Join(top, "export")); err != nil {
				return err
			}
			if err := os.WriteFile(filepath.Join(top, "export"), []byte("the one exported file"), 0644); err != nil {
				return err
			}
		}
		return os.MkdirAll(filepath.Join(top, "other", "etc"), 0755)
	}, c.EmptyRootArg)
	if err != nil {
		return harn.Fail("HARNESS: %v", err)
	}
	defer w.close()
	outside := func() (map[string]entry, map[uint64]string, error) {
		snap, err := snapshot(w.top, true)
		if err != nil {
			return nil, nil, err
		}
		inos := map[uint64]string{}
		for k, e := range snap {
			if k == "export" || strings.HasPrefix(k, "export/") {
				delete(snap, k)
				continue
			}
			if k == "." {
				// the temp dir itself: its mtime changes when export is renamed/removed; checked separately
				delete(snap, k)
				continue
			}
			inos[e.Ino] = k
		}
		if ino, ok := inoOf(w.top); ok {
			inos[ino] = "the directory that holds the export"
		}
		return snap, inos, nil
	}
	before, outsideInos, err := outside()
	if err != nil {
		return harn.Fail("HARNESS snapshot: %v", err)
	}
	rootIno, _ := inoOf(w.export)
	topBefore, _ := os.ReadDir(w.top)
	res := harn.Result{}
	hostileUsed := false
	checkQid := func(op Op, path uint64, what string) string {
		if name, bad := outsideInos[path]; bad {
			return fmt.Sprintf("%s returned a qid for %s whose path is the inode of %q, which lies outside the export", op, what, name)
		}
		return ""
	}
	for i, op := range c.Ops {
		isHostile := func(s string) bool {
			return s == ".." || s == "." || s == "" || strings.ContainsAny(s, "/\\\x00") || len(s) > 255
		}
		for _, n := range op.Names {
			if isHostile(string(n)) {
				hostileUsed = true
			}
		}
		if (op.Kind == "create" || op.Kind == "rename") && isHostile(string(op.Name)) {
			hostileUsed = true
		}
		r := w.do(op)
		if r.pan != "" {
			return harn.Fail("step %d: %s panicked: %s [history: %s]", i, op, r.pan, hist(w.trace))
		}
		fail := func(v string) harn.Result {
			return harn.Fail("step %d: %s [history: %s]", i, v, hist(w.trace))
		}
		// 1. nothing outside the export was created, modified, renamed or removed
		after, _, err := outside()
		if err != nil {
			return fail(fmt.Sprintf("after %s the area outside the export cannot be read: %v", op, err))
		}
		if d := diffSnap(before, after, "before", "after"); d != "" {
			return fail(fmt.Sprintf("%s changed the host file system outside the export: %s", op, d))
		}
		topAfter, _ := os.ReadDir(w.top)
		if len(topAfter) != len(topBefore) {
			return fail(fmt.Sprintf("%s changed the entries next to the export directory (%d → %d)", op, len(topBefore), len(topAfter)))
		}
		// 2. the exported root is still there, the same directory
		if ino, ok := inoOf(w.export); !ok || ino != rootIno {
			return fail(fmt.Sprintf("%s removed or replaced the exported root directory", op))
		}
		// 3. nothing outside was read or resolved: returned identities and data
		if r.err == nil {
			switch op.Kind {
			case "walk":
				for k, q := range r.qids {
					if v := checkQid(op, q.Path, fmt.Sprintf("element %d of the walk", k)); v != "" {
						return fail(v)
					}
				}
			case "create", "open", "attach":
				if v := checkQid(op, r.qid.Path, "the file"); v != "" {
					return fail(v)
				}
				if op.Kind == "attach" && r.qid.Path != rootIno {
					return fail(fmt.Sprintf("%s returned the qid of inode %d; the exported root is inode %d", op, r.qid.Path, rootIno))
				}
			case "fstat":
				if v := checkQid(op, r.dir.Qid.Path, "the file"); v != "" {
					return fail(v)
				}
			case "list":
				for _, d := range r.dirs {
					if v := checkQid(op, d.Qid.Path, fmt.Sprintf("entry %q", d.Name)); v != "" {
						return fail(v)
					}
				}
			case "read":
				if strings.Contains(string(r.data), sentinel) {
					return fail(fmt.Sprintf("%s returned the contents of a file outside the export", op))
				}
			}
		}
	}
	res.NonTrivial = hostileUsed
	if hostileUsed {
		res.Classes = append(res.Classes, "hostile_name_used")
	}
	if c.Empty {
		res.Classes = append(res.Classes, "empty_export")
	}
	if c.FileRoot {
		res.Classes = append(res.Classes, "file_rooted_export")
	}
	if c.EmptyRootArg {
		res.Classes = append(res.Classes, "server_created_with_empty_root")
	}
	return res
}
