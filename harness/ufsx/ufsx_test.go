package ufsx

import (
	"syscall"
	"testing"

	"verifharness/internal/harn"
)

func TestMain(m *testing.M) {
	syscall.Umask(022)
	harn.Main(m)
}

func init() {
	harn.Register("C15_Confine", RunConf)
	harn.Register("C19_Mirror", RunMirror)
}

func TestReplay(t *testing.T)  { harn.Replay(t) }
func TestRegress(t *testing.T) { harn.Regress(t) }

func TestC15_Confine(t *testing.T) { harn.Check(t, "C15_Confine", GenConf, RunConf) }
func TestC19_Mirror(t *testing.T)  { harn.Check(t, "C19_Mirror", GenMirror, RunMirror) }
