package ufsx

import (
	"fmt"
	"io"
	"os"
	"path"
	"path/filepath"
	"sort"
	"strings"
	"syscall"

	p9p "github.com/frobnitzem/go-p9p"
	"pgregory.net/rapid"

	"verifharness/internal/harn"
)

type MirrorCase struct {
	Ops []Op
}

var mnames = []string{"a", "d", "x", "y", "f", "e", "n1", "n2", "n1", "..data", "..."}

func genMirrorOp(t *rapid.T) Op {
	op := Op{Kind: rapid.SampledFrom([]string{"walk", "walk", "walk", "create", "create", "create", "open", "open", "read", "read", "write", "write", "write", "chmod", "truncate", "rename", "rename", "remove", "clunk", "fstat", "fstat", "list", "list", "attach"}).Draw(t, "kind")}
	op.Fid = rapid.SampledFrom([]uint32{0, 1, 1, 2, 2, 3, 3, 4}).Draw(t, "fid")
	B := func(s string) harn.B { return harn.B(s) }
	switch op.Kind {
	case "walk":
		op.Newfid = uint32(rapid.IntRange(1, 4).Draw(t, "newfid"))
		if rapid.IntRange(0, 5).Draw(t, "inplace") == 0 {
			op.Newfid = op.Fid
		}
		c := rapid.IntRange(0, 9).Draw(t, "nc")
		switch {
		case c < 2:
		case c < 4:
			for _, n := range rapid.SampledFrom([][]string{{"a"}, {"a", "x"}, {"a", "d"}, {"a", "d", "y"}, {"f"}, {"e"}, {".."}, {"..", "f"}, {"..", "..", "e"}}).Draw(t, "path") {
				op.Names = append(op.Names, B(n))
			}
		default:
			for _, n := range rapid.SliceOfN(rapid.SampledFrom(mnames), 1, 3).Draw(t, "names") {
				op.Names = append(op.Names, B(n))
			}
		}
	case "create":
		op.Name = B(rapid.SampledFrom([]string{"n1", "n2", "n1", "x", "f", "a", "", "s/l", "..data", "...", "..2024-01-01", ".hidden", "a..b"}).Draw(t, "name"))
		op.Dir = rapid.IntRange(0, 2).Draw(t, "dir") == 0
		op.Perm = rapid.SampledFrom([]uint32{0644, 0600, 0755, 0700, 0666, 0444, 0, 0777, 01644}).Draw(t, "perm")
		op.Mode = rapid.SampledFrom([]uint8{0, 1, 2, 2, 3, 0x10, 0x11, 0x12, 0x31, 0x32, 0x22}).Draw(t, "mode")
	case "open":
		// access mode, OTRUNC (0x10), and the option bits a server has to ignore: OCEXEC (0x20), ORCLOSE (0x40)
		op.Mode = rapid.SampledFrom([]uint8{0, 1, 2, 2, 3, 0x10, 0x11, 0x12, 0x40, 0x20, 0x21, 0x31, 0x32, 0x51, 0x52, 0x72}).Draw(t, "mode")
	case "read":
		op.Offset = rapid.SampledFrom([]int64{0, 0, 1, 5, 13, 22, 30, 100, -1}).Draw(t, "off")
		op.Count = rapid.SampledFrom([]int{0, 1, 7, 64, 4096}).Draw(t, "count")
	case "write":
		op.Offset = rapid.SampledFrom([]int64{0, 0, 1, 5, 13, 22, 30, 60, -1}).Draw(t, "off")
		op.Data = rapid.SampledFrom([]string{"", "W", "hello", "0123456789abcdef"}).Draw(t, "data")
	case "chmod":
		op.Perm = rapid.SampledFrom([]uint32{0644, 0600, 0755, 0700, 0444, 0111, 0777, 04755, 0x80000000 | 0700}).Draw(t, "perm")
	case "truncate":
		op.Length = rapid.SampledFrom([]uint64{0, 1, 5, 13, 22, 40, 4096, 1 << 63}).Draw(t, "length")
	case "rename":
		op.Name = B(rapid.SampledFrom([]string{"n1", "n2", "x", "f", "a", "r1", "r1", "/abs", "..data", "...", ".r"}).Draw(t, "name"))
	}
	return op
}

func GenMirror(t *rapid.T) MirrorCase {
	var c MirrorCase
	c.Ops = []Op{{Kind: "attach", Fid: 0}}
	if rapid.IntRange(0, 3).Draw(t, "prelude") > 0 {
		// fids on a file, a second file and a directory, so that I/O states are reached quickly
		c.Ops = append(c.Ops,
			Op{Kind: "walk", Fid: 0, Newfid: 1, Names: []harn.B{harn.B("a"), harn.B("x")}},
			Op{Kind: "walk", Fid: 0, Newfid: 2, Names: []harn.B{harn.B("f")}},
			Op{Kind: "walk", Fid: 0, Newfid: 3, Names: []harn.B{harn.B("a")}},
		)
	}
	max := 30
	if harn.Thorough() {
		max = 60
	}
	minLen := rapid.IntRange(1, max/2).Draw(t, "minlen")
	c.Ops = append(c.Ops, rapid.SliceOfN(rapid.Custom(genMirrorOp), minLen, max).Draw(t, "ops")...)
	if rapid.IntRange(0, 4).Draw(t, "swapkind") == 0 {
		// a fid keeps pointing at a name while, through other fids, the object of that name is
		// replaced by one of the other kind; then the stale fid is used
		B := func(s ...string) []harn.B {
			var out []harn.B
			for _, x := range s {
				out = append(out, harn.B(x))
			}
			return out
		}
		type tgt struct {
			parent []string
			name   string
			isDir  bool
		}
		g := rapid.SampledFrom([]tgt{{[]string{"a"}, "x", false}, {nil, "f", false}, {nil, "e", true}, {[]string{"a", "d"}, "y", false}}).Draw(t, "swaptarget")
		full := append(append([]string{}, g.parent...), g.name)
		block := []Op{
			{Kind: "clunk", Fid: 5}, {Kind: "clunk", Fid: 6}, {Kind: "clunk", Fid: 7},
			{Kind: "walk", Fid: 0, Newfid: 5, Names: B(full...)},
			{Kind: "walk", Fid: 0, Newfid: 6, Names: B(full...)},
			{Kind: "remove", Fid: 6},
			{Kind: "walk", Fid: 0, Newfid: 7, Names: B(g.parent...)},
			{Kind: "create", Fid: 7, Name: harn.B(g.name), Dir: !g.isDir, Perm: 0755, Mode: 0},
			{Kind: "clunk", Fid: 7},
			{Kind: rapid.SampledFrom([]string{"remove", "remove", "fstat", "rename", "chmod"}).Draw(t, "swapuse"), Fid: 5, Name: harn.B("r9"), Perm: 0700},
		}
		at := rapid.IntRange(1, len(c.Ops)).Draw(t, "swapat")
		c.Ops = append(c.Ops[:at], append(block, c.Ops[at:]...)...)
	}
	B := func(s ...string) []harn.B {
		var out []harn.B
		for _, x := range s {
			out = append(out, harn.B(x))
		}
		return out
	}
	if rapid.IntRange(0, 5).Draw(t, "mkexisting") == 0 {
		// a plain-file create whose name exists as a directory (or file), then more through that fid
		block := []Op{
			{Kind: "clunk", Fid: 5},
			{Kind: "walk", Fid: 0, Newfid: 5},
			{Kind: "create", Fid: 5, Name: harn.B(rapid.SampledFrom([]string{"a", "e", "a", "f"}).Draw(t, "mkename")), Dir: rapid.IntRange(0, 3).Draw(t, "mkedir") == 0, Perm: 0644, Mode: rapid.SampledFrom([]uint8{0, 3, 1, 0x10}).Draw(t, "mkemode")},
			{Kind: "create", Fid: 5, Name: harn.B("x2"), Perm: 0644, Mode: 1},
			{Kind: "fstat", Fid: 5},
			{Kind: "clunk", Fid: 5},
		}
		at := rapid.IntRange(1, len(c.Ops)).Draw(t, "mkeat")
		c.Ops = append(c.Ops[:at], append(block, c.Ops[at:]...)...)
	}
	if rapid.IntRange(0, 5).Draw(t, "dotdotstat") == 0 {
		// a fresh fid reached by a walk that ends in "..", stat'ed directly
		block := []Op{
			{Kind: "clunk", Fid: 5}, {Kind: "clunk", Fid: 6},
			{Kind: "walk", Fid: 0, Newfid: 5, Names: B("a", "d")},
			{Kind: "walk", Fid: 5, Newfid: 6, Names: B("..")},
			{Kind: "fstat", Fid: 6, Count: 1},
			{Kind: "walk", Fid: 5, Newfid: 5, Names: B("..", "..")},
			{Kind: "fstat", Fid: 5, Count: 1},
		}
		at := rapid.IntRange(1, len(c.Ops)).Draw(t, "ddat")
		c.Ops = append(c.Ops[:at], append(block, c.Ops[at:]...)...)
	}
	if rapid.IntRange(0, 5).Draw(t, "renopen") == 0 {
		// an open fid is renamed, successfully or onto something the host refuses, and used on
		target := rapid.SampledFrom([]string{"a", "e", "r7", "x"}).Draw(t, "rentarget")
		block := []Op{
			{Kind: "clunk", Fid: 5},
			{Kind: "walk", Fid: 0, Newfid: 5, Names: B("f")},
			{Kind: "open", Fid: 5, Mode: 2},
			{Kind: "write", Fid: 5, Data: "hello", Offset: 0},
			{Kind: "rename", Fid: 5, Name: harn.B(target)},
			{Kind: "write", Fid: 5, Data: "W", Offset: 1},
			{Kind: "read", Fid: 5, Count: 64, Offset: 0},
			{Kind: "clunk", Fid: 5},
		}
		at := rapid.IntRange(1, len(c.Ops)).Draw(t, "renat")
		c.Ops = append(c.Ops[:at], append(block, c.Ops[at:]...)...)
	}
	if rapid.IntRange(0, 5).Draw(t, "relist") == 0 {
		// a directory is listed, one of its entries changes without the directory itself changing, and it is listed again
		block := []Op{
			{Kind: "clunk", Fid: 5}, {Kind: "clunk", Fid: 6},
			{Kind: "walk", Fid: 0, Newfid: 6, Names: B("a")},
			{Kind: "list", Fid: 6},
			{Kind: "walk", Fid: 0, Newfid: 5, Names: B("a", "x")},
			{Kind: "open", Fid: 5, Mode: 1},
			{Kind: "write", Fid: 5, Data: "0123456789abcdef", Offset: rapid.SampledFrom([]int64{0, 13, 30}).Draw(t, "reloff")},
			{Kind: "list", Fid: 6},
			{Kind: "chmod", Fid: 5, Perm: rapid.SampledFrom([]uint32{0600, 0444, 0755}).Draw(t, "relperm")},
			{Kind: "list", Fid: 6},
			{Kind: "truncate", Fid: 5, Length: rapid.SampledFrom([]uint64{0, 1, 5}).Draw(t, "rellen")},
			{Kind: "list", Fid: 6},
			{Kind: "fstat", Fid: 5},
		}
		at := rapid.IntRange(1, len(c.Ops)).Draw(t, "relat")
		c.Ops = append(c.Ops[:at], append(block, c.Ops[at:]...)...)
	}
	return c
}

type tfid struct {
	rel     string
	isDir   bool
	open    bool
	dirOpen bool
	mode    uint8
	th      *os.File
}

func oflags(mode uint8) int {
	var f int
	switch mode & 3 {
	case 0, 3:
		f = os.O_RDONLY
	case 1:
		f = os.O_WRONLY
	case 2:
		f = os.O_RDWR
	}
	if mode&0x10 != 0 {
		f |= os.O_TRUNC
	}
	return f
}

func readAllowed(m uint8) bool  { return m&3 != 1 }
func writeAllowed(m uint8) bool { return m&3 == 1 || m&3 == 2 }

func validSeq(names []string) bool {
	seen := false
	for _, s := range names {
		switch {
		case s == "" || s == "." || strings.ContainsAny(s, "/\\"):
			return false
		case s == "..":
			if seen {
				return false
			}
		default:
			seen = true
		}
	}
	return true
}

func RunMirror(c MirrorCase) harn.Result {
	var twin string
	w, err := newWorld(func(top string) error {
		twin = filepath.Join(top, "twin")
		return populate(twin)
	})
	if err != nil {
		return harn.Fail("HARNESS: %v", err)
	}
	defer w.close()
	fids := map[uint32]*tfid{}
	defer func() {
		for _, f := range fids {
			if f.th != nil {
				f.th.Close()
			}
		}
	}()
	T := func(rel string) string { return filepath.Join(twin, filepath.FromSlash(rel)) }
	E := func(rel string) string { return filepath.Join(w.export, filepath.FromSlash(rel)) }
	res := harn.Result{}
	cl := map[string]bool{}
	for i, op := range c.Ops {
		f, bound := fids[op.Fid]
		r := w.do(op)
		fail := func(format string, a ...any) harn.Result {
			return harn.Fail("step %d: %s: %s [history: %s]", i, op, fmt.Sprintf(format, a...), hist(w.trace))
		}
		if r.pan != "" {
			return fail("panicked: %s", r.pan)
		}
		failed := r.err != nil
		expectFail := func(why string) *harn.Result {
			if !failed {
				x := fail("succeeded, but the equivalent direct operation fails: %s", why)
				return &x
			}
			return nil
		}
		expectOK := func() *harn.Result {
			if failed {
				x := fail("failed with %v, but the equivalent direct OS operation succeeds", r.err)
				return &x
			}
			return nil
		}
		// match: the session must succeed exactly when the twin operation did
		match := func(terr error) *harn.Result {
			if terr != nil {
				return expectFail(terr.Error())
			}
			return expectOK()
		}
		switch op.Kind {
		case "attach":
			if bound {
				if x := expectFail("fid in use"); x != nil {
					return *x
				}
				break
			}
			if x := expectOK(); x != nil {
				return *x
			}
			fids[op.Fid] = &tfid{rel: "/", isDir: true}
		case "walk":
			names := strsOf(op.Names)
			_, nbound := fids[op.Newfid]
			var why string
			switch {
			case !validSeq(names):
				why = "names not in normal form"
			case !bound:
				why = "fid not bound"
			case op.Newfid != op.Fid && nbound:
				why = "newfid in use"
			case len(names) > 0 && !f.isDir:
				why = "walk in a non-directory"
			}
			if why != "" {
				if x := expectFail(why); x != nil {
					return *x
				}
				break
			}
			if len(names) == 0 && op.Newfid == op.Fid {
				if x := expectOK(); x != nil {
					return *x
				}
				break
			}
			depth := 0
			if f.rel != "/" {
				depth = strings.Count(f.rel, "/")
			}
			lead := 0
			for _, n := range names {
				if n == ".." {
					lead++
				}
			}
			if lead > depth {
				if x := expectFail("'..' above the export root"); x != nil {
					return *x
				}
				break
			}
			target := path.Join(f.rel, path.Join(names...))
			st, terr := os.Stat(T(target))
			if f.open && len(names) > 0 {
				// walking an open fid is not determined; resynchronise from what happened
				if failed {
					break
				}
			} else if x := match(terr); x != nil {
				return *x
			}
			if terr != nil || failed {
				break
			}
			if len(names) > 0 {
				if hi, ok := inoOf(E(target)); !ok || r.qids[len(r.qids)-1].Path != hi {
					return fail("last qid path %d is not the host inode %d of %s", r.qids[len(r.qids)-1].Path, hi, target)
				}
			}
			nf := &tfid{rel: target, isDir: st.IsDir()}
			if op.Newfid == op.Fid {
				if f.th != nil {
					f.th.Close()
				}
				if f.open {
					nf.open, nf.mode, nf.dirOpen = true, f.mode, true // the old open state lingers; I/O on it is not asserted
				}
			}
			fids[op.Newfid] = nf
			cl["walk_ok"] = true
		case "open":
			switch {
			case !bound:
				if x := expectFail("fid not bound"); x != nil {
					return *x
				}
			case f.open:
				if x := expectFail("already open"); x != nil {
					return *x
				}
			case f.isDir:
				_, terr := os.ReadDir(T(f.rel))
				if x := match(terr); x != nil {
					return *x
				}
				if terr == nil {
					f.open, f.dirOpen, f.mode = true, true, op.Mode
				}
			default:
				th, terr := os.OpenFile(T(f.rel), oflags(op.Mode), 0)
				if x := match(terr); x != nil {
					if th != nil {
						th.Close()
					}
					return *x
				}
				if terr == nil {
					f.open, f.mode, f.th = true, op.Mode, th
					if op.Mode&0x10 != 0 {
						cl["truncating_open"] = true
					}
				}
			}
		case "create":
			name := string(op.Name)
			var why string
			switch {
			case name == "." || name == "..":
				why = "illegal name"
			case !bound:
				why = "fid not bound"
			case !f.isDir:
				why = "create in a non-directory"
			case name == "" || strings.ContainsAny(name, "/\\"):
				why = "invalid name"
			}
			if why != "" {
				if x := expectFail(why); x != nil {
					return *x
				}
				break
			}
			if f.open && failed {
				break // create on an already open fid: not determined
			}
			nrel := path.Join(f.rel, name)
			var terr error
			var th *os.File
			if op.Dir {
				terr = os.Mkdir(T(nrel), os.FileMode(op.Perm&0777))
			} else {
				th, terr = os.OpenFile(T(nrel), oflags(op.Mode)|os.O_CREATE, os.FileMode(op.Perm&0777))
			}
			if x := match(terr); x != nil {
				if th != nil {
					th.Close()
				}
				return *x
			}
			if terr != nil {
				break
			}
			if f.th != nil {
				f.th.Close()
			}
			fids[op.Fid] = &tfid{rel: nrel, isDir: op.Dir, open: true, dirOpen: op.Dir, mode: op.Mode, th: th}
			if op.Dir {
				cl["mkdir"] = true
			} else {
				cl["create_file"] = true
			}
		case "read", "write":
			isRead := op.Kind == "read"
			var why string
			switch {
			case !bound:
				why = "fid not bound"
			case !f.open:
				why = "fid not open"
			case isRead && !readAllowed(f.mode):
				why = "not open for reading"
			case !isRead && !writeAllowed(f.mode):
				why = "not open for writing"
			}
			if why != "" {
				if x := expectFail(why); x != nil {
					return *x
				}
				break
			}
			if f.dirOpen || f.th == nil {
				if !isRead {
					if x := expectFail("write to a directory"); x != nil && f.th == nil && f.isDir {
						return *x
					}
				}
				break
			}
			if isRead {
				buf := make([]byte, op.Count)
				n, terr := f.th.ReadAt(buf, op.Offset)
				if terr == io.EOF {
					terr = nil
				}
				if x := match(terr); x != nil {
					return *x
				}
				if terr == nil && (r.n != n || string(r.data) != string(buf[:n])) {
					return fail("read %d bytes %q, the host file holds %q at that offset", r.n, clip(r.data), clip(buf[:n]))
				}
			} else {
				n, terr := f.th.WriteAt([]byte(op.Data), op.Offset)
				if x := match(terr); x != nil {
					return *x
				}
				if terr == nil && r.n != n {
					return fail("wrote %d bytes, the direct write wrote %d", r.n, n)
				}
				if terr == nil && op.Offset > 0 {
					cl["write_at_offset"] = true
				}
			}
		case "chmod", "truncate", "rename":
			if !bound {
				if x := expectFail("fid not bound"); x != nil {
					return *x
				}
				break
			}
			var terr error
			switch op.Kind {
			case "chmod":
				terr = os.Chmod(T(f.rel), os.FileMode(op.Perm&0777))
				if terr == nil {
					cl["chmod"] = true
				}
			case "truncate":
				terr = os.Truncate(T(f.rel), int64(op.Length))
				if terr == nil {
					cl["truncate"] = true
				}
			case "rename":
				name := string(op.Name)
				if path.IsAbs(name) {
					terr = fmt.Errorf("absolute names are refused")
					break
				}
				nrel := path.Join(path.Dir(f.rel), name)
				terr = syscall.Rename(T(f.rel), T(nrel))
				if terr == nil {
					if !failed {
						f.rel = nrel
					}
					cl["rename"] = true
				}
			}
			if x := match(terr); x != nil {
				return *x
			}
		case "remove":
			if !bound {
				if x := expectFail("fid not bound"); x != nil {
					return *x
				}
				break
			}
			delete(fids, op.Fid)
			if f.th != nil {
				f.th.Close()
			}
			var terr error
			if f.rel == "/" {
				terr = fmt.Errorf("the export root cannot be removed")
			} else {
				terr = os.Remove(T(f.rel))
			}
			if x := match(terr); x != nil {
				return *x
			}
		case "clunk":
			if !bound {
				if x := expectFail("fid not bound"); x != nil {
					return *x
				}
				break
			}
			delete(fids, op.Fid)
			if f.th != nil {
				f.th.Close()
			}
			if x := expectOK(); x != nil {
				return *x
			}
		case "fstat":
			if !bound {
				if x := expectFail("fid not bound"); x != nil {
					return *x
				}
				break
			}
			if op.Count == 1 {
				// a stat on the fid itself: the fid may have been walked long ago, so only what cannot
				// have changed since is compared - the name it was walked to and the object's identity
				if failed {
					break
				}
				if hi, herr := os.Lstat(E(f.rel)); herr == nil {
					wantName := hi.Name()
					if f.rel == "/" {
						wantName = r.dir.Name // the root's name is the export's base name or "/": not asserted
					}
					if ino, _ := inoOf(E(f.rel)); r.dir.Name != wantName || r.dir.Qid.Path != ino {
						return fail("stat on the fid reports name %q, qid path %d; the fid was walked to %q (inode %d)", r.dir.Name, r.dir.Qid.Path, wantName, ino)
					}
					cl["direct_stat"] = true
				}
				break
			}
			_, terr := os.Stat(T(f.rel))
			if x := match(terr); x != nil {
				return *x
			}
			if terr != nil {
				break
			}
			hi, herr := os.Lstat(E(f.rel))
			if herr != nil {
				return fail("HARNESS: export and twin diverged: %v", herr)
			}
			if v := cmpDir(r.dir, hi); v != "" {
				return fail("stat through a freshly walked fid does not match the host: %s", v)
			}
			cl["fresh_stat"] = true
		case "list":
			if !bound {
				if x := expectFail("fid not bound"); x != nil {
					return *x
				}
				break
			}
			st, terr := os.Stat(T(f.rel))
			if terr != nil {
				if x := expectFail(terr.Error()); x != nil {
					return *x
				}
				break
			}
			if !st.IsDir() {
				break
			}
			if x := expectOK(); x != nil {
				return *x
			}
			ents, herr := os.ReadDir(E(f.rel))
			if herr != nil {
				return fail("HARNESS: cannot list the export: %v", herr)
			}
			got := map[string]p9p.Dir{}
			for _, d := range r.dirs {
				if _, dup := got[d.Name]; dup {
					return fail("listing contains %q twice", d.Name)
				}
				got[d.Name] = d
			}
			var hostNames, gotNames []string
			for _, e := range ents {
				hostNames = append(hostNames, e.Name())
			}
			for k := range got {
				gotNames = append(gotNames, k)
			}
			sort.Strings(hostNames)
			sort.Strings(gotNames)
			if strings.Join(hostNames, "\x00") != strings.Join(gotNames, "\x00") {
				return fail("listing has entries %q, the host directory has %q", gotNames, hostNames)
			}
			for _, e := range ents {
				hi, err := e.Info()
				if err != nil {
					continue
				}
				if v := cmpDir(got[e.Name()], hi); v != "" {
					return fail("listing entry %q does not match the host: %s", e.Name(), v)
				}
			}
			cl["listing"] = true
		}
		// the exported directory must be exactly what the direct operations left in the twin
		se, err1 := snapshot(w.export, false)
		st, err2 := snapshot(twin, false)
		if err1 != nil || err2 != nil {
			return fail("HARNESS: snapshot failed: %v %v", err1, err2)
		}
		if d := diffSnap(st, se, "the twin (direct OS operations)", "the export (through ufs)"); d != "" {
			return fail("the exported directory differs from what the equivalent direct OS operations produce: %s", d)
		}
	}
	for k := range cl {
		res.Classes = append(res.Classes, k)
	}
	res.NonTrivial = cl["write_at_offset"] || cl["truncating_open"] || cl["rename"] || cl["chmod"] || cl["mkdir"] || cl["truncate"]
	return res
}

// cmpDir compares a 9P stat record with the host's view of the same file.
func cmpDir(d p9p.Dir, hi os.FileInfo) string {
	st := hi.Sys().(*syscall.Stat_t)
	switch {
	case d.Name != hi.Name():
		return fmt.Sprintf("name %q, host %q", d.Name, hi.Name())
	case (d.Mode&p9p.DMDIR != 0) != hi.IsDir():
		return fmt.Sprintf("DMDIR=%v, host IsDir=%v", d.Mode&p9p.DMDIR != 0, hi.IsDir())
	case (d.Qid.Type&p9p.QTDIR != 0) != hi.IsDir():
		return fmt.Sprintf("QTDIR=%v, host IsDir=%v", d.Qid.Type&p9p.QTDIR != 0, hi.IsDir())
	case os.FileMode(d.Mode&0777) != hi.Mode().Perm():
		return fmt.Sprintf("permission bits %#o, host %#o", d.Mode&0777, hi.Mode().Perm())
	case d.Length != uint64(hi.Size()):
		return fmt.Sprintf("length %d, host %d", d.Length, hi.Size())
	case d.ModTime.Unix() != hi.ModTime().Unix():
		return fmt.Sprintf("mtime %d, host %d", d.ModTime.Unix(), hi.ModTime().Unix())
	case d.Qid.Path != st.Ino:
		return fmt.Sprintf("qid path %d, host inode %d", d.Qid.Path, st.Ino)
	}
	return ""
}

func clip(b []byte) []byte {
	if len(b) > 32 {
		return append(append([]byte{}, b[:32]...), '.', '.')
	}
	return b
}
