// Package ufsx decides C15 (the host-directory file server is confined to its
// export root) and C19 (it mirrors the host file system) by driving
// p9p.SFileSys(ufs.NewServer(export)) with generated operation histories on a
// temporary directory tree.
package ufsx

import (
	"bytes"
	"context"
	"fmt"
	"os"
	"path"
	"path/filepath"
	"runtime/debug"
	"sort"
	"strings"
	"syscall"
	"time"

	p9p "github.com/frobnitzem/go-p9p"
	"github.com/frobnitzem/go-p9p/ufs"

	"verifharness/internal/harn"
)

type Op struct {
	Kind   string // attach walk open create read write chmod truncate rename remove clunk fstat list
	Fid    uint32
	Newfid uint32   `json:",omitempty"`
	Names  []harn.B `json:",omitempty"`
	Name   harn.B   `json:",omitempty"`
	Dir    bool     `json:",omitempty"`
	Perm   uint32   `json:",omitempty"`
	Mode   uint8    `json:",omitempty"`
	Offset int64    `json:",omitempty"`
	Count  int      `json:",omitempty"`
	Data   string   `json:",omitempty"`
	Length uint64   `json:",omitempty"`
	PermHi uint32   `json:",omitempty"` // create: further permission bits (DMSYMLINK, DMNAMEDPIPE, DMAPPEND, ...)
}

func (o Op) String() string {
	s := fmt.Sprintf("%s(fid=%d", o.Kind, o.Fid)
	if o.Kind == "attach" && len(o.Name) > 0 {
		s += fmt.Sprintf(" aname=%q", string(o.Name))
	}
	if o.PermHi != 0 {
		s += fmt.Sprintf(" permhi=%#x", o.PermHi)
	}
	switch o.Kind {
	case "walk":
		s += fmt.Sprintf(" newfid=%d %q", o.Newfid, strsOf(o.Names))
	case "open":
		s += fmt.Sprintf(" mode=%#x", o.Mode)
	case "create":
		s += fmt.Sprintf(" %q dir=%v perm=%#o mode=%#x", string(o.Name), o.Dir, o.Perm, o.Mode)
	case "read":
		s += fmt.Sprintf(" count=%d off=%d", o.Count, o.Offset)
	case "write":
		s += fmt.Sprintf(" %q off=%d", o.Data, o.Offset)
	case "chmod":
		s += fmt.Sprintf(" %#o", o.Perm)
	case "truncate":
		s += fmt.Sprintf(" len=%d", o.Length)
	case "rename":
		s += fmt.Sprintf(" → %q", string(o.Name))
	}
	return s + ")"
}

func strsOf(bs []harn.B) []string {
	out := make([]string, len(bs))
	for i, b := range bs {
		out[i] = string(b)
	}
	return out
}

type world struct {
	top    string // temp dir holding everything
	export string
	sess   p9p.Session
	trace  []string
	cwd    string // to restore after an emptyRoot world
}

var ctx = context.Background()

// newWorld builds  top/export/{a/{x,d/{y}},f,e/}  plus whatever extra(top) adds.
func newWorld(extra func(top string) error) (*world, error) { return newWorldOpt(extra, false) }

// newWorldOpt: emptyRoot = the server is created with the root "" while the process's working
// directory is the export (what an unset configuration variable gives)
func newWorldOpt(extra func(top string) error, emptyRoot bool) (*world, error) {
	top, err := os.MkdirTemp("", "ufsx")
	if err != nil {
		return nil, err
	}
	w := &world{top: top, export: filepath.Join(top, "export")}
	if err := populate(w.export); err != nil {
		os.RemoveAll(top)
		return nil, err
	}
	if extra != nil {
		if err := extra(top); err != nil {
			os.RemoveAll(top)
			return nil, err
		}
	}
	if emptyRoot {
		if cwd, err := os.Getwd(); err == nil {
			w.cwd = cwd
		}
		if err := os.Chdir(w.export); err != nil {
			os.RemoveAll(top)
			return nil, err
		}
		w.sess = p9p.SFileSys(ufs.NewServer(ctx, ""))
		return w, nil
	}
	w.sess = p9p.SFileSys(ufs.NewServer(ctx, w.export))
	return w, nil
}

func populate(root string) error {
	for _, d := range []string{"", "a", "a/d", "a/d/k", "e"} {
		if err := os.MkdirAll(filepath.Join(root, d), 0755); err != nil {
			return err
		}
	}
	files := map[string]string{"a/x": "contents of x", "a/d/y": "yy", "f": "file f data 0123456789"}
	for k, v := range files {
		if err := os.WriteFile(filepath.Join(root, k), []byte(v), 0644); err != nil {
			return err
		}
	}
	return nil
}

func (w *world) close() {
	if w.sess != nil {
		w.sess.Stop(nil)
	}
	if w.cwd != "" {
		os.Chdir(w.cwd)
	}
	// directories may have lost their permission bits
	filepath.Walk(w.top, func(p string, info os.FileInfo, err error) error {
		if err == nil && info.IsDir() {
			os.Chmod(p, 0755)
		}
		return nil
	})
	os.RemoveAll(w.top)
}

type callResult struct {
	err  error
	qid  p9p.Qid
	qids []p9p.Qid
	n    int
	data []byte
	dir  p9p.Dir
	dirs []p9p.Dir
	pan  string
}

const tmpFid = 0xF000

func safely(f func()) (pan string) {
	defer func() {
		if r := recover(); r != nil {
			st := debug.Stack()
			if len(st) > 900 {
				st = st[:900]
			}
			pan = fmt.Sprintf("%v\n%s", r, st)
		}
	}()
	f()
	return ""
}

func noTouch() p9p.Dir { return p9p.Dir{Mode: ^uint32(0), Length: ^uint64(0)} }

func (w *world) do(op Op) callResult {
	s := w.sess
	var r callResult
	fid := p9p.Fid(op.Fid)
	w.trace = append(w.trace, op.String())
	r.pan = safely(func() {
		switch op.Kind {
		case "attach":
			r.qid, r.err = s.Attach(ctx, fid, p9p.NOFID, "user", string(op.Name))
		case "walk":
			r.qids, r.err = s.Walk(ctx, fid, p9p.Fid(op.Newfid), strsOf(op.Names)...)
		case "open":
			r.qid, _, r.err = s.Open(ctx, fid, p9p.Flag(op.Mode))
		case "create":
			perm := op.Perm & 0777
			if op.Dir {
				perm |= p9p.DMDIR
			}
			perm |= op.PermHi
			r.qid, _, r.err = s.Create(ctx, fid, string(op.Name), perm, p9p.Flag(op.Mode))
		case "read":
			buf := make([]byte, op.Count)
			r.n, r.err = s.Read(ctx, fid, buf, op.Offset)
			if r.n >= 0 && r.n <= len(buf) {
				r.data = buf[:r.n]
			}
		case "write":
			r.n, r.err = s.Write(ctx, fid, []byte(op.Data), op.Offset)
		case "chmod":
			d := noTouch()
			d.Mode = op.Perm & 0777
			r.err = s.WStat(ctx, fid, d)
		case "truncate":
			d := noTouch()
			d.Length = op.Length
			r.err = s.WStat(ctx, fid, d)
		case "rename":
			d := noTouch()
			d.Name = string(op.Name)
			r.err = s.WStat(ctx, fid, d)
		case "touchroot":
			// not a request: time passes and the exported directory's mtime changes on the host
			t := time.Now().Add(time.Duration(op.Count+1) * time.Second)
			os.Chtimes(w.export, t, t)
		case "remove":
			r.err = s.Remove(ctx, fid)
		case "clunk":
			r.err = s.Clunk(ctx, fid)
		case "fstat":
			if op.Count == 1 {
				// the fid itself, not a clone of it
				r.dir, r.err = s.Stat(ctx, fid)
				return
			}
			if _, r.err = s.Walk(ctx, fid, tmpFid); r.err != nil {
				return
			}
			defer s.Clunk(ctx, tmpFid)
			r.dir, r.err = s.Stat(ctx, tmpFid)
		case "list":
			if _, r.err = s.Walk(ctx, fid, tmpFid); r.err != nil {
				return
			}
			defer s.Clunk(ctx, tmpFid)
			if _, _, r.err = s.Open(ctx, tmpFid, p9p.OREAD); r.err != nil {
				return
			}
			var all []byte
			var off int64
			for i := 0; i < 64; i++ {
				buf := make([]byte, 8192)
				n, err := s.Read(ctx, tmpFid, buf, off)
				if err != nil {
					r.err = err
					return
				}
				if n == 0 {
					break
				}
				all = append(all, buf[:n]...)
				off += int64(n)
			}
			rd := bytes.NewReader(all)
			codec := p9p.NewCodec()
			for rd.Len() > 0 {
				var d p9p.Dir
				if err := p9p.DecodeDir(codec, rd, &d); err != nil {
					r.err = fmt.Errorf("directory data does not decode: %v", err)
					return
				}
				r.dirs = append(r.dirs, d)
			}
		}
	})
	return r
}

// ---- snapshots of host trees

type entry struct {
	Rel   string
	Dir   bool
	Perm  os.FileMode
	Size  int64
	Data  string
	Ino   uint64
	Mtime int64
}

// snapshot lists everything under root (not following symlinks).
func snapshot(root string, withIno bool) (map[string]entry, error) {
	out := map[string]entry{}
	err := filepath.Walk(root, func(p string, info os.FileInfo, err error) error {
		if err != nil {
			return err
		}
		rel, _ := filepath.Rel(root, p)
		e := entry{Rel: rel, Dir: info.IsDir(), Perm: info.Mode().Perm(), Size: info.Size()}
		if withIno {
			e.Ino = info.Sys().(*syscall.Stat_t).Ino
			e.Mtime = info.ModTime().UnixNano()
		}
		if info.Mode().IsRegular() {
			b, rerr := os.ReadFile(p)
			if rerr != nil {
				// unreadable (mode 0): as root this does not happen
				e.Data = "<unreadable>"
			} else {
				e.Data = string(b)
			}
		}
		if info.IsDir() {
			e.Size = 0
		}
		out[rel] = e
		return nil
	})
	return out, err
}

func diffSnap(a, b map[string]entry, an, bn string) string {
	var keys []string
	for k := range a {
		keys = append(keys, k)
	}
	for k := range b {
		if _, ok := a[k]; !ok {
			keys = append(keys, k)
		}
	}
	sort.Strings(keys)
	for _, k := range keys {
		x, okx := a[k]
		y, oky := b[k]
		switch {
		case !okx:
			return fmt.Sprintf("%q exists in %s but not in %s", k, bn, an)
		case !oky:
			return fmt.Sprintf("%q exists in %s but not in %s", k, an, bn)
		case x != y:
			return fmt.Sprintf("%q differs: %s has %+v, %s has %+v", k, an, brief(x), bn, brief(y))
		}
	}
	return ""
}

func brief(e entry) entry {
	if len(e.Data) > 40 {
		e.Data = e.Data[:40] + "…"
	}
	return e
}

func hist(t []string) string {
	if len(t) > 50 {
		t = append([]string{"…"}, t[len(t)-50:]...)
	}
	return strings.Join(t, "; ")
}

var _ = path.Join
