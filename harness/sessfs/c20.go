package sessfs

import (
	"context"
	"errors"
	"fmt"
	"sort"
	"strings"
	"verifharness/internal/mockfs"

	p9p "github.com/frobnitzem/go-p9p"
	"pgregory.net/rapid"

	"verifharness/internal/harn"
)

// COp is one operation through the client file-system layer (p9p.CFileSys).
type COp struct {
	Kind    string   // attach walk open opendir create stat wstat clunk remove read
	Ent     int      // index into the list of live entries (mod its length)
	Names   []string `json:",omitempty"`
	Name    string   `json:",omitempty"`
	Mode    uint8    `json:",omitempty"`
	Perm    uint32   `json:",omitempty"`
	Fault   string   `json:",omitempty"`
	Partial int      `json:",omitempty"`
}

type ClientCase struct {
	Ops []COp
	// FileRoot: the server exports a single regular file (the qid in Rattach has no QTDIR bit)
	FileRoot bool `json:",omitempty"`
}

// spy records every call that reaches the session underneath CFileSys.
type spyCall struct {
	Method string
	Fid    p9p.Fid
	Newfid p9p.Fid
	Names  []string
	Name   string
	Mode   p9p.Flag
	Perm   uint32
	Qids   []p9p.Qid
	Qid    p9p.Qid
	Err    error
}

type spy struct {
	s     p9p.Session
	calls []spyCall
	// failRead: the next Read fails with an I/O error that is not end-of-file, without reaching the session
	failRead bool
	// failRelease: the next Clunk/Remove fails in transit, without reaching the session
	failRelease bool
}

func (y *spy) add(c spyCall) { y.calls = append(y.calls, c) }

func (y *spy) Auth(ctx context.Context, afid p9p.Fid, uname, aname string) (p9p.Qid, error) {
	q, err := y.s.Auth(ctx, afid, uname, aname)
	y.add(spyCall{Method: "auth", Fid: afid, Err: err})
	return q, err
}
func (y *spy) Attach(ctx context.Context, fid, afid p9p.Fid, uname, aname string) (p9p.Qid, error) {
	q, err := y.s.Attach(ctx, fid, afid, uname, aname)
	y.add(spyCall{Method: "attach", Fid: fid, Newfid: afid, Qid: q, Err: err})
	return q, err
}
func (y *spy) Clunk(ctx context.Context, fid p9p.Fid) error {
	if y.failRelease {
		y.failRelease = false
		err := errors.New("injected transport failure")
		y.add(spyCall{Method: "clunk", Fid: fid, Err: err})
		return err
	}
	err := y.s.Clunk(ctx, fid)
	y.add(spyCall{Method: "clunk", Fid: fid, Err: err})
	return err
}
func (y *spy) Remove(ctx context.Context, fid p9p.Fid) error {
	if y.failRelease {
		y.failRelease = false
		err := errors.New("injected transport failure")
		y.add(spyCall{Method: "remove", Fid: fid, Err: err})
		return err
	}
	err := y.s.Remove(ctx, fid)
	y.add(spyCall{Method: "remove", Fid: fid, Err: err})
	return err
}
func (y *spy) Walk(ctx context.Context, fid, newfid p9p.Fid, names ...string) ([]p9p.Qid, error) {
	q, err := y.s.Walk(ctx, fid, newfid, names...)
	y.add(spyCall{Method: "walk", Fid: fid, Newfid: newfid, Names: append([]string(nil), names...), Qids: q, Err: err})
	return q, err
}
func (y *spy) Read(ctx context.Context, fid p9p.Fid, p []byte, off int64) (int, error) {
	if y.failRead {
		y.failRead = false
		err := errors.New("injected transport failure")
		y.add(spyCall{Method: "read", Fid: fid, Err: err})
		return 0, err
	}
	n, err := y.s.Read(ctx, fid, p, off)
	y.add(spyCall{Method: "read", Fid: fid, Err: err})
	return n, err
}
func (y *spy) Write(ctx context.Context, fid p9p.Fid, p []byte, off int64) (int, error) {
	n, err := y.s.Write(ctx, fid, p, off)
	y.add(spyCall{Method: "write", Fid: fid, Err: err})
	return n, err
}
func (y *spy) Open(ctx context.Context, fid p9p.Fid, mode p9p.Flag) (p9p.Qid, uint32, error) {
	q, io, err := y.s.Open(ctx, fid, mode)
	y.add(spyCall{Method: "open", Fid: fid, Mode: mode, Qid: q, Err: err})
	return q, io, err
}
func (y *spy) Create(ctx context.Context, fid p9p.Fid, name string, perm uint32, mode p9p.Flag) (p9p.Qid, uint32, error) {
	q, io, err := y.s.Create(ctx, fid, name, perm, mode)
	y.add(spyCall{Method: "create", Fid: fid, Name: name, Perm: perm, Mode: mode, Qid: q, Err: err})
	return q, io, err
}
func (y *spy) Stat(ctx context.Context, fid p9p.Fid) (p9p.Dir, error) {
	d, err := y.s.Stat(ctx, fid)
	y.add(spyCall{Method: "stat", Fid: fid, Err: err})
	return d, err
}
func (y *spy) WStat(ctx context.Context, fid p9p.Fid, d p9p.Dir) error {
	err := y.s.WStat(ctx, fid, d)
	y.add(spyCall{Method: "wstat", Fid: fid, Err: err})
	return err
}
func (y *spy) Version() (int, string) { return y.s.Version() }
func (y *spy) Stop(err error) error   { return y.s.Stop(err) }

var cNames = []string{"a", "x", "d", "y", "f", "e", "..", ".", "", "missing", "n1"}

func genCOp(t *rapid.T) COp {
	op := COp{Kind: rapid.SampledFrom([]string{"attach", "walk", "walk", "walk", "walk", "walk", "open", "opendir", "create", "stat", "wstat", "clunk", "clunk", "remove", "read"}).Draw(t, "kind")}
	op.Ent = rapid.IntRange(0, 7).Draw(t, "ent")
	switch op.Kind {
	case "walk":
		c := rapid.IntRange(0, 9).Draw(t, "namesclass")
		switch {
		case c == 0:
		case c < 3:
			op.Names = rapid.SampledFrom([][]string{{"."}, {".", "."}, {"a", "."}, {"a", ".."}, {"", "a"}, {"a", "", "x"}, {"a", "d", "..", "x"}, {"a", "..", "f"}, {".", "missing"}, {"a", ".", "missing"}, {"..", "."}}).Draw(t, "canned")
		case c < 9:
			op.Names = rapid.SliceOfN(rapid.SampledFrom(cNames), 1, 4).Draw(t, "names")
		default:
			op.Names = []string{rapid.SampledFrom([]string{"a/b", "\\", "a\\b"}).Draw(t, "sep")}
		}
		if len(op.Names) > 1 && rapid.IntRange(0, 5).Draw(t, "partialp") == 0 {
			op.Partial = rapid.IntRange(1, len(op.Names)-1).Draw(t, "partial")
		}
		if rapid.IntRange(0, 9).Draw(t, "faultp") == 0 {
			op.Fault = "walk"
		}
		if rapid.IntRange(0, 11).Draw(t, "deep") == 0 {
			// more than 16 names after normalisation: /deep/d1/.../dN, complete or failing near the end
			l := rapid.IntRange(15, 22).Draw(t, "deeplen")
			op.Names = []string{"deep"}
			for k := 1; k <= l; k++ {
				op.Names = append(op.Names, fmt.Sprintf("d%d", k))
			}
			op.Partial, op.Fault = 0, ""
			switch rapid.IntRange(0, 2).Draw(t, "deepend") {
			case 0:
				op.Names[rapid.IntRange(len(op.Names)-6, len(op.Names)-1).Draw(t, "deepbad")] = "missing"
			case 1:
				op.Partial = rapid.IntRange(len(op.Names)-6, len(op.Names)-1).Draw(t, "deeppartial")
			}
			op.Ent = 0
		}
	case "read":
		if rapid.IntRange(0, 2).Draw(t, "readfault") == 0 {
			op.Fault = "spyread"
		}
	case "open":
		op.Mode = rapid.SampledFrom(modes).Draw(t, "mode")
		if rapid.IntRange(0, 9).Draw(t, "faultp") == 0 {
			op.Fault = rapid.SampledFrom([]string{"open", "opendir"}).Draw(t, "fault")
		}
	case "create":
		op.Name = rapid.SampledFrom(createNames).Draw(t, "name")
		op.Mode = rapid.SampledFrom(modes).Draw(t, "mode")
		op.Perm = rapid.SampledFrom([]uint32{0644, 0x80000000 | 0755}).Draw(t, "perm")
		if rapid.IntRange(0, 9).Draw(t, "faultp") == 0 {
			op.Fault = rapid.SampledFrom([]string{"create", "opendir"}).Draw(t, "fault")
		}
	case "clunk", "remove", "stat", "wstat", "attach":
		if rapid.IntRange(0, 9).Draw(t, "faultp") == 0 {
			op.Fault = op.Kind
		}
		if (op.Kind == "clunk" || op.Kind == "remove") && rapid.IntRange(0, 5).Draw(t, "transitp") == 0 {
			op.Fault = "spyrelease"
		}
	}
	return op
}

func GenClientCase(t *rapid.T) ClientCase {
	var c ClientCase
	c.Ops = append(c.Ops, COp{Kind: "attach"})
	max := 30
	if harn.Thorough() {
		max = 60
	}
	minLen := rapid.IntRange(1, max/2).Draw(t, "minlen")
	c.Ops = append(c.Ops, rapid.SliceOfN(rapid.Custom(genCOp), minLen, max).Draw(t, "ops")...)
	c.FileRoot = rapid.IntRange(0, 14).Draw(t, "fileroot") == 0
	return c
}

type liveEnt struct {
	ent  p9p.Dirent
	fid  p9p.Fid
	file p9p.File
	rn   p9p.ReadNext
}

func refNormalizeC(names []string) ([]string, bool) {
	var out []string
	lead := 0
	for _, s := range names {
		if strings.ContainsAny(s, "/\\") {
			return nil, false
		}
	}
	for _, s := range names {
		switch s {
		case "", ".":
		case "..":
			if len(out) > lead {
				out = out[:len(out)-1]
			} else {
				out = append(out, "..")
				lead++
			}
		default:
			out = append(out, s)
		}
	}
	return out, true
}

func eqS(a, b []string) bool {
	if len(a) != len(b) {
		return false
	}
	for i := range a {
		if a[i] != b[i] {
			return false
		}
	}
	return true
}

// RunC20 drives CFileSys over spy(SFileSys(mockfs)).
func RunC20(c ClientCase) harn.Result {
	e := NewEnv()
	if c.FileRoot {
		e.FS = mockfs.NewFileRoot()
		e.FS.Hook = e.hook
		e.Sess = p9p.SFileSys(e.FS)
	} else {
		e.FS.PopulateDeep("deep", 22)
	}
	y := &spy{s: e.Sess}
	cfs := p9p.CFileSys(y)
	ctx := context.Background()
	var live []*liveEnt
	res := harn.Result{}
	cl := map[string]bool{}
	var trace []string

	boundFids := func() ([]int, error) {
		tab, err := e.Table()
		if err != nil {
			return nil, err
		}
		var out []int
		for fid, te := range tab {
			if te.Locked {
				return nil, fmt.Errorf("server fid %d left locked", fid)
			}
			out = append(out, int(fid))
		}
		sort.Ints(out)
		return out, nil
	}
	liveFids := func() []int {
		var out []int
		for _, l := range live {
			out = append(out, int(l.fid))
		}
		sort.Ints(out)
		return out
	}
	fail := func(i int, op COp, format string, a ...any) harn.Result {
		return harn.Fail("step %d %s(ent=%d names=%q name=%q fault=%s partial=%d): %s [history: %s]", i, op.Kind, op.Ent, op.Names, op.Name, op.Fault, op.Partial, fmt.Sprintf(format, a...), strings.Join(trace, "; "))
	}

	for i, op := range c.Ops {
		y.calls = nil
		e.Calls = nil
		e.curFault, e.curPart, e.faultUsed = op.Fault, op.Partial, false
		var cur *liveEnt
		idx := -1
		if op.Kind != "attach" {
			if len(live) == 0 {
				continue
			}
			idx = op.Ent % len(live)
			cur = live[idx]
		}
		trace = append(trace, fmt.Sprintf("%s(%v)", op.Kind, func() any {
			if cur != nil {
				return fmt.Sprintf("fid%d %q%s", cur.fid, op.Names, op.Name)
			}
			return ""
		}()))
		drop := func() { live = append(live[:idx], live[idx+1:]...) }
		// expectOne: exactly one session call, of the given method, on the entry's fid
		expectOne := func(method string) (*spyCall, string) {
			if len(y.calls) != 1 {
				return nil, fmt.Sprintf("issued %d session calls %v, want exactly one %s", len(y.calls), methods(y.calls), method)
			}
			sc := &y.calls[0]
			if sc.Method != method {
				return nil, fmt.Sprintf("issued session call %s, want %s", sc.Method, method)
			}
			if cur != nil && sc.Fid != cur.fid {
				return nil, fmt.Sprintf("issued %s on fid %d, but the entry's fid is %d", method, sc.Fid, cur.fid)
			}
			return sc, ""
		}
		switch op.Kind {
		case "attach":
			ent, err := cfs.Attach(ctx, "user", "", nil)
			if len(y.calls) != 1 || y.calls[0].Method != "attach" {
				return fail(i, op, "issued session calls %v, want one attach", methods(y.calls))
			}
			sc := y.calls[0]
			if (err == nil) != (sc.Err == nil) {
				return fail(i, op, "client reports err=%v but the session call returned err=%v", err, sc.Err)
			}
			if err == nil {
				if ent.Qid() != sc.Qid {
					return fail(i, op, "entry qid %v, server returned %v", ent.Qid(), sc.Qid)
				}
				live = append(live, &liveEnt{ent: ent, fid: sc.Fid})
			}
		case "walk":
			steps, ok := refNormalizeC(op.Names)
			qids, ent, err := cur.ent.Walk(ctx, op.Names...)
			if !ok {
				if err == nil {
					return fail(i, op, "accepted a name containing a separator")
				}
				if len(y.calls) != 0 {
					return fail(i, op, "sent %v for a name list it must reject", methods(y.calls))
				}
				break
			}
			sc, v := expectOne("walk")
			if v != "" {
				return fail(i, op, "%s", v)
			}
			if !eqS(sc.Names, steps) {
				return fail(i, op, "sent steps %q, the normal form of the names is %q", sc.Names, steps)
			}
			if !eqS(steps, op.Names) {
				cl["walk_normalised"] = true
			}
			if len(steps) > 16 {
				cl["walk_over_16_names"] = true
			}
			for _, l := range live {
				if l.fid == sc.Newfid {
					return fail(i, op, "asked the server to bind fid %d, which already belongs to a live entry", sc.Newfid)
				}
			}
			completed := sc.Err == nil && len(sc.Qids) == len(steps)
			if completed {
				if err != nil {
					return fail(i, op, "the server completed the walk (%d qids for %d steps, fid %d now bound) but the client reports failure: %v", len(sc.Qids), len(steps), sc.Newfid, err)
				}
				want := cur.ent.Qid()
				if len(sc.Qids) > 0 {
					want = sc.Qids[len(sc.Qids)-1]
				}
				if ent == nil || ent.Qid() != want {
					return fail(i, op, "walked-to entry has qid %v, want %v", ent, want)
				}
				if !qidsEqual(qids, sc.Qids) {
					return fail(i, op, "returned qids %v, server sent %v", qids, sc.Qids)
				}
				live = append(live, &liveEnt{ent: ent, fid: sc.Newfid})
				cl["walk_complete"] = true
			} else {
				if err == nil {
					return fail(i, op, "the server did not complete the walk (err=%v, %d qids for %d steps) but the client reports success", sc.Err, len(sc.Qids), len(steps))
				}
				if sc.Err == nil {
					cl["walk_partial"] = true
				} else {
					cl["walk_failed"] = true
				}
			}
		case "open", "opendir":
			if op.Kind == "open" {
				f, err := cur.ent.Open(ctx, p9p.Flag(op.Mode))
				sc, v := expectOne("open")
				if v != "" {
					return fail(i, op, "%s", v)
				}
				if sc.Mode != p9p.Flag(op.Mode) {
					return fail(i, op, "sent mode %#x, caller passed %#x", sc.Mode, op.Mode)
				}
				if (err == nil) != (sc.Err == nil) {
					return fail(i, op, "client err=%v, session err=%v", err, sc.Err)
				}
				if err == nil {
					cur.file = f
				}
			} else {
				rn, err := cur.ent.OpenDir(ctx)
				sc, v := expectOne("open")
				if v != "" {
					return fail(i, op, "%s", v)
				}
				if (err == nil) != (sc.Err == nil) {
					return fail(i, op, "client err=%v, session err=%v", err, sc.Err)
				}
				if err == nil {
					cur.rn = rn
				}
			}
		case "read":
			if op.Fault == "spyread" && (cur.file != nil || cur.rn != nil) {
				y.failRead = true
				cl["read_fails_in_transit"] = true
			}
			if cur.file != nil {
				buf := make([]byte, 16)
				cur.file.Read(ctx, buf, 0)
				if _, v := expectOne("read"); v != "" {
					return fail(i, op, "%s", v)
				}
			} else if cur.rn != nil {
				cur.rn(ctx)
				for _, sc := range y.calls {
					if sc.Method != "read" || sc.Fid != cur.fid {
						return fail(i, op, "directory iterator issued %s on fid %d, entry's fid is %d", sc.Method, sc.Fid, cur.fid)
					}
				}
			}
		case "create":
			ent, f, err := cur.ent.Create(ctx, op.Name, op.Perm, p9p.Flag(op.Mode))
			if len(y.calls) == 0 {
				if err == nil {
					return fail(i, op, "reports success without asking the server")
				}
				break
			}
			sc, v := expectOne("create")
			if v != "" {
				return fail(i, op, "%s", v)
			}
			if sc.Name != op.Name || sc.Perm != op.Perm || sc.Mode != p9p.Flag(op.Mode) {
				return fail(i, op, "sent create(%q, %#o, %#x), caller passed (%q, %#o, %#x)", sc.Name, sc.Perm, sc.Mode, op.Name, op.Perm, op.Mode)
			}
			if (err == nil) != (sc.Err == nil) {
				return fail(i, op, "client err=%v, session err=%v", err, sc.Err)
			}
			if err == nil {
				if ent.Qid() != sc.Qid {
					return fail(i, op, "created entry has qid %v, server returned %v", ent.Qid(), sc.Qid)
				}
				// the new entry takes over the fid of the (consumed) parent entry
				live[idx] = &liveEnt{ent: ent, fid: cur.fid, file: f}
				cl["create_ok"] = true
			} else {
				// the server may have dropped the fid (directory created but unopenable)
				if tab, terr := e.Table(); terr == nil {
					if _, still := tab[uint32(cur.fid)]; !still {
						drop()
					}
				}
			}
		case "stat":
			_, err := cur.ent.Stat(ctx)
			sc, v := expectOne("stat")
			if v != "" {
				return fail(i, op, "%s", v)
			}
			if (err == nil) != (sc.Err == nil) {
				return fail(i, op, "client err=%v, session err=%v", err, sc.Err)
			}
		case "wstat":
			// one wstat in three changes nothing (every field "don't touch": the sync request), in two shapes
			d := p9p.Dir{Mode: 0600, Length: ^uint64(0)}
			switch (i + op.Ent) % 6 {
			case 0:
				d = SyncDir()
				cl["wstat_sync"] = true
			case 1:
				d = p9p.Dir{Mode: ^uint32(0), Length: ^uint64(0)}
				cl["wstat_sync"] = true
			}
			err := cur.ent.WStat(ctx, d)
			sc, v := expectOne("wstat")
			if v != "" {
				return fail(i, op, "%s", v)
			}
			if (err == nil) != (sc.Err == nil) {
				return fail(i, op, "client err=%v, session err=%v", err, sc.Err)
			}
		case "clunk", "remove":
			var err error
			inTransit := op.Fault == "spyrelease"
			if inTransit {
				y.failRelease = true
				cl["release_fails_in_transit"] = true
			}
			if op.Kind == "clunk" {
				err = cur.ent.Clunk(ctx)
			} else {
				err = cur.ent.Remove(ctx)
			}
			sc, v := expectOne(op.Kind)
			if v != "" {
				return fail(i, op, "%s", v)
			}
			if (err == nil) != (sc.Err == nil) {
				return fail(i, op, "client err=%v, session err=%v", err, sc.Err)
			}
			if inTransit {
				// the request never reached the server: the fid is still bound there and the entry is
				// still the caller's to release (a later clunk/remove step retries)
				break
			}
			drop()
		}
		e.curFault, e.curPart = "", 0
		// live entries ↔ server fids, one to one
		lf := liveFids()
		for j := 1; j < len(lf); j++ {
			if lf[j] == lf[j-1] {
				return fail(i, op, "two live entries share fid %d", lf[j])
			}
		}
		bf, err := boundFids()
		if err != nil {
			return fail(i, op, "%v", err)
		}
		if fmt.Sprint(bf) != fmt.Sprint(lf) {
			return fail(i, op, "server holds fids %v but the live entries are on fids %v", bf, lf)
		}
	}
	// release everything the caller obtained: the server must end up empty
	for _, l := range live {
		l.ent.Clunk(ctx)
	}
	bf, err := boundFids()
	if err != nil {
		return harn.Fail("%v", err)
	}
	if len(bf) != 0 {
		return harn.Fail("after clunking every entry the server still holds fids %v [history: %s]", bf, strings.Join(trace, "; "))
	}
	if c.FileRoot {
		cl["file_rooted_export"] = true
	}
	for k := range cl {
		res.Classes = append(res.Classes, k)
	}
	res.NonTrivial = cl["walk_normalised"] || cl["walk_partial"]
	return res
}

func methods(cs []spyCall) []string {
	var out []string
	for _, c := range cs {
		out = append(out, fmt.Sprintf("%s(fid %d)", c.Method, c.Fid))
	}
	return out
}
