package sessfs

import (
	"pgregory.net/rapid"

	"verifharness/internal/harn"
)

// SessCase is a sequential history on one session.
type SessCase struct {
	Ops    []Op
	StopAt int // C13: Stop after this many ops (≥ len(Ops): at the end)
}

var fidPool = []uint32{0, 1, 2, 3, 4}

const neverBound = 77

func genFid(t *rapid.T, label string, allowOdd bool) uint32 {
	if allowOdd && rapid.IntRange(0, 11).Draw(t, label+"odd") == 0 {
		return rapid.SampledFrom([]uint32{NOFID, neverBound}).Draw(t, label)
	}
	return rapid.SampledFrom(fidPool).Draw(t, label)
}

var walkNames = []string{"a", "a", "x", "d", "y", "f", "e", "..", "..", "missing", "n1", "n2"}
var badNames = []string{"", ".", "a/b", "\\", "x/.."}
var createNames = []string{"n1", "n2", "n1", "x", "a", "", ".", "..", "s/l", "n3"}
var modes = []uint8{0, 1, 2, 3, 0x10, 0x11, 0x12, 0x40, 0x41, 0x83}

func genNames(t *rapid.T) []string {
	c := rapid.IntRange(0, 19).Draw(t, "namesclass")
	switch {
	case c < 4:
		return nil
	case c < 8:
		return []string{rapid.SampledFrom(walkNames).Draw(t, "n")}
	case c < 10:
		// canned complete paths of the standard tree
		return rapid.SampledFrom([][]string{{"a", "x"}, {"a", "d"}, {"a", "d", "y"}, {"a", "d", ".."}, {"..", "a"}, {"..", "..", "f"}, {"a", "d", "y", "z"}, {"a", "nope", "y"}}).Draw(t, "path")
	case c < 19:
		return rapid.SliceOfN(rapid.SampledFrom(walkNames), 1, 4).Draw(t, "names")
	default:
		ns := rapid.SliceOfN(rapid.SampledFrom(walkNames), 0, 3).Draw(t, "names")
		i := rapid.IntRange(0, len(ns)).Draw(t, "badpos")
		bad := rapid.SampledFrom(badNames).Draw(t, "bad")
		out := append(append(append([]string{}, ns[:i]...), bad), ns[i:]...)
		return out
	}
}

// GenOp draws one operation.  faults: probability class of injected file-system failures (0 none, 1 light, 2 heavy).
func GenOp(t *rapid.T, faults int) Op {
	kind := rapid.SampledFrom([]string{"attach", "attach", "walk", "walk", "walk", "walk", "walk", "open", "open", "create", "create", "read", "write", "stat", "wstat", "clunk", "clunk", "remove"}).Draw(t, "kind")
	op := Op{Kind: kind, Fid: genFid(t, "fid", true)}
	fault := func(cands ...string) {
		p := 0
		switch faults {
		case 1:
			p = 12
		case 2:
			p = 4
		}
		if p > 0 && rapid.IntRange(0, p-1).Draw(t, "faultp") == 0 {
			op.Fault = rapid.SampledFrom(cands).Draw(t, "fault")
		}
	}
	switch kind {
	case "attach":
		op.Afid = NOFID
		if rapid.IntRange(0, 5).Draw(t, "afidp") == 0 {
			op.Afid = genFid(t, "afid", true)
		}
		fault("attach")
	case "walk":
		op.Newfid = genFid(t, "newfid", true)
		if rapid.IntRange(0, 4).Draw(t, "inplace") == 0 {
			op.Newfid = op.Fid
		}
		op.Names = genNames(t)
		if len(op.Names) > 1 && rapid.IntRange(0, 5).Draw(t, "partialp") == 0 {
			op.Partial = rapid.IntRange(1, len(op.Names)-1).Draw(t, "partial")
		}
		fault("walk", "walk", "clunk")
	case "open":
		op.Mode = rapid.SampledFrom(modes).Draw(t, "mode")
		if rapid.IntRange(0, 9).Draw(t, "anymode") == 0 {
			op.Mode = rapid.Uint8().Draw(t, "mode8")
		}
		fault("open", "opendir")
	case "create":
		op.Name = rapid.SampledFrom(createNames).Draw(t, "name")
		op.Mode = rapid.SampledFrom(modes).Draw(t, "mode")
		op.Perm = rapid.SampledFrom([]uint32{0644, 0600, 0x80000000 | 0755, 0x80000000 | 0700, 0x80000000 | 0x04000000 | 0755, 0x80000000 | 0x40000000 | 0x20000000 | 0700, 0x40000000 | 0644}).Draw(t, "perm")
		fault("create", "opendir", "opendir")
	case "read":
		op.Count = rapid.SampledFrom([]int{0, 1, 4, 64}).Draw(t, "count")
		op.Offset = rapid.SampledFrom([]int64{0, 0, 1, 5, 100, -1}).Draw(t, "offset")
		fault("read")
	case "write":
		op.Data = rapid.SampledFrom([]string{"", "W", "hello"}).Draw(t, "data")
		op.Offset = rapid.SampledFrom([]int64{0, 0, 1, 5, 100, -1}).Draw(t, "offset")
		fault("write")
	case "stat":
		fault("stat")
	case "wstat":
		op.Perm = rapid.SampledFrom([]uint32{0600, 0755, 0xFFFFFFFF}).Draw(t, "perm") // 0xFFFFFFFF: the all-"don't touch" record (wstat as a sync request)
		fault("wstat")
	case "clunk":
		fault("clunk")
	case "remove":
		fault("remove")
	}
	op.CtxDone = rapid.IntRange(0, 11).Draw(t, "ctxdone") == 0
	if op.Fault == "open" || op.Fault == "opendir" || op.Fault == "create" {
		op.FaultPH = rapid.Bool().Draw(t, "faultph")
	}
	return op
}

func genCase(faults int, maxOps int) func(t *rapid.T) SessCase {
	return func(t *rapid.T) SessCase {
		var c SessCase
		// most histories start by attaching so that the interesting states are reached
		if rapid.IntRange(0, 9).Draw(t, "prefix") > 0 {
			c.Ops = append(c.Ops, Op{Kind: "attach", Fid: rapid.SampledFrom(fidPool).Draw(t, "rootfid"), Afid: NOFID})
		}
		minLen := rapid.IntRange(1, maxOps/2).Draw(t, "minlen")
		c.Ops = append(c.Ops, rapid.SliceOfN(rapid.Custom(func(t *rapid.T) Op { return GenOp(t, faults) }), minLen, maxOps).Draw(t, "ops")...)
		if rapid.IntRange(0, 5).Draw(t, "phblock") == 0 {
			// an open (or create) that fails in the file system while handing back placeholder
			// values, then the same fid is opened / read again
			at := rapid.IntRange(1, len(c.Ops)).Draw(t, "phat")
			k := rapid.SampledFrom(fidPool).Draw(t, "phfid")
			path := rapid.SampledFrom([][]string{{"f"}, {"a", "x"}, {"a"}, {"e"}}).Draw(t, "phpath")
			first := Op{Kind: "open", Fid: k, Mode: rapid.SampledFrom(modes).Draw(t, "phmode"), Fault: "open", FaultPH: true}
			if path[len(path)-1] == "a" || path[len(path)-1] == "e" {
				if rapid.Bool().Draw(t, "phcreate") {
					first = Op{Kind: "create", Fid: k, Name: "n3", Perm: 0644, Mode: 2, Fault: "create", FaultPH: true}
				} else {
					first.Fault = "opendir"
				}
			}
			block := []Op{{Kind: "clunk", Fid: k}, {Kind: "attach", Fid: k, Afid: NOFID}, {Kind: "walk", Fid: k, Newfid: k, Names: path}, first,
				{Kind: "read", Fid: k, Count: 4}, {Kind: "open", Fid: k, Mode: 0}, {Kind: "read", Fid: k, Count: 4}}
			c.Ops = append(c.Ops[:at], append(block, c.Ops[at:]...)...)
		}
		c.StopAt = len(c.Ops)
		if rapid.IntRange(0, 3).Draw(t, "stopearly") == 0 {
			c.StopAt = rapid.IntRange(0, len(c.Ops)).Draw(t, "stopat")
		}
		return c
	}
}

func maxOps() int {
	if harn.Thorough() {
		return 80
	}
	return 40
}

func GenC08(t *rapid.T) SessCase { return genCase(1, maxOps())(t) }
func GenC13(t *rapid.T) SessCase { return genCase(2, maxOps())(t) }
