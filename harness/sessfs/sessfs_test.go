package sessfs

import (
	"testing"

	"verifharness/internal/harn"
)

func TestMain(m *testing.M) { harn.Main(m) }

func init() {
	harn.Register("C08_Session", RunC08)
	harn.Register("C13_Release", RunC13)
	harn.Register("C20_Client", RunC20)
}

func TestReplay(t *testing.T)  { harn.Replay(t) }
func TestRegress(t *testing.T) { harn.Regress(t) }

func TestC08_Session(t *testing.T) { harn.Check(t, "C08_Session", GenC08, RunC08) }
func TestC13_Release(t *testing.T) { harn.Check(t, "C13_Release", GenC13, RunC13) }
func TestC20_Client(t *testing.T)  { harn.Check(t, "C20_Client", GenClientCase, RunC20) }
