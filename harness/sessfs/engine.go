// Package sessfs decides the properties of the server fid-tracking session
// (p9p.SFileSys): C08 (fid state machine), C13 (every entry released exactly
// once), C14 (per-fid atomicity, no deadlock) and C20 (client file-system
// layer), by running generated operation histories against the instrumented
// mock file system and a reference fid table written from the property text.
package sessfs

import (
	"context"
	"fmt"
	"sort"
	"strings"
	"time"

	p9p "github.com/frobnitzem/go-p9p"

	"verifharness/internal/mockfs"
)

const NOFID = ^uint32(0)

// Op is one session operation of a history.
type Op struct {
	Kind   string // attach walk open create read write stat wstat clunk remove
	Fid    uint32
	Newfid uint32   `json:",omitempty"`
	Afid   uint32   `json:",omitempty"`
	Names  []string `json:",omitempty"`
	Name   string   `json:",omitempty"`
	Mode   uint8    `json:",omitempty"`
	Perm   uint32   `json:",omitempty"`
	Count  int      `json:",omitempty"`
	Offset int64    `json:",omitempty"`
	Data   string   `json:",omitempty"`
	// FileSys behaviour injected during this operation:
	// CtxDone: the operation is called with a context that is already cancelled (a request that
	// was flushed or timed out before the session got to it); the mock ignores contexts
	CtxDone bool `json:",omitempty"`
	// FaultPH: the failing open/opendir/create returns non-nil placeholder values next to its error
	FaultPH bool   `json:",omitempty"`
	Fault   string `json:",omitempty"` // name of the mock call to fail: attach walk open opendir create read write stat wstat clunk remove
	Partial int    `json:",omitempty"` // walk: the file system finds only this many elements
}

func (o Op) String() string {
	s := fmt.Sprintf("%s(fid=%d", o.Kind, int32(o.Fid))
	switch o.Kind {
	case "attach":
		s += fmt.Sprintf(" afid=%d", int32(o.Afid))
	case "walk":
		s += fmt.Sprintf(" newfid=%d names=%q", int32(o.Newfid), o.Names)
	case "open":
		s += fmt.Sprintf(" mode=%#x", o.Mode)
	case "create":
		s += fmt.Sprintf(" name=%q perm=%#o mode=%#x", o.Name, o.Perm, o.Mode)
	case "read":
		s += fmt.Sprintf(" count=%d off=%d", o.Count, o.Offset)
	case "write":
		s += fmt.Sprintf(" data=%q off=%d", o.Data, o.Offset)
	}
	if o.Fault != "" {
		s += " fault=" + o.Fault
	}
	if o.CtxDone {
		s += " ctx=cancelled"
	}
	if o.Partial > 0 {
		s += fmt.Sprintf(" partial=%d", o.Partial)
	}
	return s + ")"
}

// mfid is the reference model's view of one bound fid.
type mfid struct {
	node        *mockfs.Node
	hid         int // id of the mock handle observed when the fid was bound
	open        bool
	openUnknown bool // after an operation the property text leaves undetermined
	mode        uint8
}

// Env is one session under test plus its model.
type Env struct {
	FS    *mockfs.FS
	Sess  p9p.Session
	Model map[uint32]*mfid
	// every handle id that was ever bound to a fid (for C13)
	EverBound   map[int]bool
	Calls       []mockfs.Call // mock calls of the current op
	curFault    string
	curPH       bool
	curPart     int
	faultUsed   bool
	Trace       []string
	Classes     map[string]int
	OpTimeout   time.Duration
	everUnbound map[uint32]bool
}

func NewEnv() *Env {
	e := &Env{FS: mockfs.New(), Model: map[uint32]*mfid{}, EverBound: map[int]bool{}, Classes: map[string]int{}, OpTimeout: 8 * time.Second, everUnbound: map[uint32]bool{}}
	e.FS.Populate()
	e.FS.Hook = e.hook
	e.Sess = p9p.SFileSys(e.FS)
	return e
}

func (e *Env) hook(c *mockfs.Call) *mockfs.Fault {
	e.Calls = append(e.Calls, *c)
	if e.curFault != "" && !e.faultUsed && c.Op == e.curFault {
		e.faultUsed = true
		return &mockfs.Fault{Err: mockfs.ErrInjected, WithPlaceholder: e.curPH}
	}
	if c.Op == "walk" && e.curPart > 0 {
		return &mockfs.Fault{Partial: e.curPart}
	}
	return nil
}

func validNames(names []string) bool {
	seenOrdinary := false
	for _, s := range names {
		switch {
		case s == "" || s == "." || strings.ContainsAny(s, "/\\"):
			return false
		case s == "..":
			if seenOrdinary {
				return false
			}
		default:
			seenOrdinary = true
		}
	}
	return true
}

type result struct {
	err    error
	qid    p9p.Qid
	qids   []p9p.Qid
	n      int
	data   []byte
	dir    p9p.Dir
	iounit uint32
}

// call runs one session operation under a watchdog.
func (e *Env) call(op Op) (res result, hung bool) {
	ctx := context.Background()
	if op.CtxDone {
		c, cancel := context.WithCancel(ctx)
		cancel()
		ctx = c
	}
	done := make(chan result, 1)
	go func() {
		var r result
		s := e.Sess
		switch op.Kind {
		case "attach":
			r.qid, r.err = s.Attach(ctx, p9p.Fid(op.Fid), p9p.Fid(op.Afid), "user", "")
		case "walk":
			r.qids, r.err = s.Walk(ctx, p9p.Fid(op.Fid), p9p.Fid(op.Newfid), op.Names...)
		case "open":
			r.qid, r.iounit, r.err = s.Open(ctx, p9p.Fid(op.Fid), p9p.Flag(op.Mode))
		case "create":
			r.qid, r.iounit, r.err = s.Create(ctx, p9p.Fid(op.Fid), op.Name, op.Perm, p9p.Flag(op.Mode))
		case "read":
			buf := make([]byte, op.Count)
			r.n, r.err = s.Read(ctx, p9p.Fid(op.Fid), buf, op.Offset)
			if r.n >= 0 && r.n <= len(buf) {
				r.data = buf[:r.n]
			}
		case "write":
			r.n, r.err = s.Write(ctx, p9p.Fid(op.Fid), []byte(op.Data), op.Offset)
		case "stat":
			r.dir, r.err = s.Stat(ctx, p9p.Fid(op.Fid))
		case "wstat":
			d := p9p.Dir{Mode: uint32(op.Perm), Length: ^uint64(0)}
			if op.Perm == ^uint32(0) {
				d = SyncDir()
			}
			r.err = s.WStat(ctx, p9p.Fid(op.Fid), d)
		case "clunk":
			r.err = s.Clunk(ctx, p9p.Fid(op.Fid))
		case "remove":
			r.err = s.Remove(ctx, p9p.Fid(op.Fid))
		default:
			panic("bad op " + op.Kind)
		}
		done <- r
	}()
	select {
	case r := <-done:
		return r, false
	case <-time.After(e.OpTimeout):
		return result{}, true
	}
}

// expectation computed from the model before the call
type expectation struct {
	fail               bool   // the operation must fail
	either             bool   // the property text does not determine success/failure (see DESIGN §4 ambiguities)
	dup                bool   // the failure must be the duplicate-fid error
	why                string // explanation of the expectation
	qids               []p9p.Qid
	qid                *p9p.Qid
	bind               uint32 // fid that must be (re)bound to a fresh handle on node bindNode
	doBind             bool
	bindNode           *mockfs.Node
	bindOpen           bool
	bindMode           uint8
	unbind             bool // op.Fid must end unbound
	target             int  // handle id the primary mock call must arrive at (0: none)
	primary            string
	data               []byte
	checkData          bool
	n                  int
	checkN             bool
	dir                *p9p.Dir
	lenient            bool // failed create-directory corner: see DESIGN
	openAfter          bool // on success the fid becomes open with op.Mode
	inplaceUnknownOpen bool
}

func isDupErr(err error) bool {
	if err == nil {
		return false
	}
	if err == p9p.ErrDupfid {
		return true
	}
	if m, ok := err.(p9p.MessageRerror); ok {
		return strings.Contains(m.Ename, "duplicate fid")
	}
	return false
}

func readAllowed(mode uint8) bool  { m := mode & 3; return m == 0 || m == 2 || m == 3 }
func writeAllowed(mode uint8) bool { m := mode & 3; return m == 1 || m == 2 }

func (e *Env) expect(op Op) expectation {
	m := e.Model
	src, bound := m[op.Fid]
	if op.Fid == NOFID {
		bound = false
	}
	faultOn := func(call string) bool { return op.Fault == call }
	x := expectation{}
	switch op.Kind {
	case "attach":
		switch {
		case op.Afid != NOFID:
			x.fail, x.why = true, "afid is not an authentication fid"
		case op.Fid == NOFID:
			x.fail, x.why = true, "NOFID cannot be bound"
		case bound:
			x.fail, x.dup, x.why = true, true, "fid already bound"
		case faultOn("attach"):
			x.fail, x.why = true, "file system refused the attach"
		default:
			q := e.FS.Root.Qid()
			x.qid = &q
			x.doBind, x.bind, x.bindNode = true, op.Fid, e.FS.Root
			x.primary = "attach"
		}
	case "walk":
		_, nbound := m[op.Newfid]
		switch {
		case !validNames(op.Names):
			x.fail, x.why = true, "name list is not in normal form"
		case !bound:
			x.fail, x.why = true, "source fid not bound"
		case op.Newfid != op.Fid && op.Newfid == NOFID:
			x.fail, x.why = true, "NOFID cannot be bound"
		case op.Newfid != op.Fid && nbound:
			x.fail, x.dup, x.why = true, true, "newfid already bound"
		case len(op.Names) == 0 && op.Newfid == op.Fid:
			x.why = "zero-step walk onto itself is a no-op"
		case len(op.Names) == 0:
			x.primary, x.target = "walk", src.hid
			if faultOn("walk") {
				x.fail, x.why = true, "file system refused the clone"
			} else {
				x.doBind, x.bind, x.bindNode = true, op.Newfid, src.node
			}
		case !src.node.Dir:
			x.fail, x.why = true, "walk in a non-directory"
		default:
			x.primary, x.target = "walk", src.hid
			if src.open || src.openUnknown {
				x.either = true // 9P forbids walking an open fid, the property text is silent
			}
			if faultOn("walk") {
				x.fail, x.why = true, "file system walk error"
				break
			}
			found := mockfs.Resolve(src.node, op.Names)
			if op.Partial > 0 && op.Partial < len(found) {
				found = found[:op.Partial]
			}
			for _, n := range found {
				x.qids = append(x.qids, n.Qid())
			}
			switch {
			case len(found) == 0:
				x.fail, x.why = true, "first element not found"
			case len(found) < len(op.Names):
				x.why = "partial walk binds nothing"
			default:
				x.doBind, x.bind, x.bindNode = true, op.Newfid, found[len(found)-1]
				if op.Newfid == op.Fid {
					x.bindOpen, x.bindMode = src.open, src.mode
					x.inplaceUnknownOpen = src.open || src.openUnknown
				}
			}
		}
	case "open":
		switch {
		case !bound:
			x.fail, x.why = true, "fid not bound"
		case src.openUnknown:
			x.either = true
			x.openAfter = true
		case src.open:
			x.fail, x.why = true, "fid already open"
		default:
			x.target = src.hid
			x.primary = "open"
			if src.node.Dir {
				x.primary = "opendir"
			}
			if faultOn(x.primary) {
				x.fail, x.why = true, "file system refused the open"
			} else {
				q := src.node.Qid()
				x.qid = &q
				x.openAfter = true
			}
		}
	case "create":
		switch {
		case op.Name == "." || op.Name == "..":
			x.fail, x.why = true, "illegal file name"
		case !bound:
			x.fail, x.why = true, "fid not bound"
		case !src.node.Dir:
			x.fail, x.why = true, "create in a non-directory"
		default:
			x.primary, x.target = "create", src.hid
			if src.open || src.openUnknown {
				x.either = true
			}
			_, dup := src.node.Children[op.Name]
			badName := op.Name == "" || strings.ContainsAny(op.Name, "/\\")
			switch {
			case faultOn("create"):
				x.fail, x.why = true, "file system refused the create"
			case dup || badName || src.node.Removed:
				x.fail, x.why = true, "file system rejects the name"
			case op.Perm&p9p.DMDIR != 0 && faultOn("opendir"):
				x.fail, x.lenient, x.why = true, true, "directory created but cannot be opened"
			default:
				x.doBind, x.bind = true, op.Fid
				x.bindNode = nil // the new node: checked by name after the call
				x.bindOpen, x.bindMode = true, op.Mode
			}
		}
	case "read", "write":
		isRead := op.Kind == "read"
		switch {
		case !bound:
			x.fail, x.why = true, "fid not bound"
		case src.openUnknown:
			x.either = true
		case !src.open:
			x.fail, x.why = true, "fid not open"
		case isRead && !readAllowed(src.mode):
			x.fail, x.why = true, "open mode does not permit reading"
		case !isRead && !writeAllowed(src.mode):
			x.fail, x.why = true, "open mode does not permit writing"
		case src.node.Dir:
			if !isRead {
				x.fail, x.why = true, "write to a directory"
			} else {
				x.either = true // directory reads are decided by C17
			}
		default:
			x.primary, x.target = op.Kind, src.hid
			if faultOn(op.Kind) {
				x.fail, x.why = true, "file I/O error"
				break
			}
			data := src.node.Data
			if op.Offset < 0 || op.Offset > int64(len(data)) {
				x.fail, x.why = true, "offset outside the file"
				break
			}
			if isRead {
				end := op.Offset + int64(op.Count)
				if end > int64(len(data)) {
					end = int64(len(data))
				}
				x.data, x.checkData = append([]byte(nil), data[op.Offset:end]...), true
			} else {
				x.n, x.checkN = len(op.Data), true
			}
		}
	case "stat", "wstat":
		switch {
		case !bound:
			x.fail, x.why = true, "fid not bound"
		default:
			x.primary, x.target = op.Kind, src.hid
			if faultOn(op.Kind) {
				x.fail, x.why = true, "file system error"
			} else if op.Kind == "stat" {
				d := src.node.Stat()
				x.dir = &d
			}
		}
	case "clunk", "remove":
		switch {
		case !bound:
			x.fail, x.why = true, "fid not bound"
		default:
			x.primary, x.target = op.Kind, src.hid
			x.unbind = true
			if faultOn(op.Kind) {
				x.fail, x.why = true, "file system error (fid is unbound all the same)"
			} else if op.Kind == "remove" {
				n := src.node
				if n.Parent == nil || (n.Dir && len(n.Children) > 0) || n.Removed {
					x.fail, x.why = true, "file system refuses the removal (fid is unbound all the same)"
				}
			}
		}
	}
	return x
}

// Table is a snapshot of the real fid table.
type TEntry struct {
	H      *mockfs.Handle
	HasEnt bool
	Open   bool
	Mode   uint8
	Locked bool
}

func (e *Env) Table() (map[uint32]TEntry, error) {
	tab, ok := p9p.VerifFidTable(e.Sess)
	if !ok {
		return nil, fmt.Errorf("HARNESS: session is not an SFileSys session")
	}
	out := map[uint32]TEntry{}
	for _, t := range tab {
		te := TEntry{HasEnt: t.HasEnt, Open: t.Open, Mode: uint8(t.Mode), Locked: t.Locked}
		if t.HasEnt {
			h, ok := t.Ent.(*mockfs.Handle)
			if !ok {
				return nil, fmt.Errorf("fid %d is bound to a %T, which the file system never handed out", t.Fid, t.Ent)
			}
			te.H = h
		}
		out[uint32(t.Fid)] = te
	}
	return out, nil
}

func (e *Env) describeModel() string {
	var ks []int
	for k := range e.Model {
		ks = append(ks, int(k))
	}
	sort.Ints(ks)
	var sb strings.Builder
	for _, k := range ks {
		f := e.Model[uint32(k)]
		fmt.Fprintf(&sb, " %d→node%d/h%d", k, f.node.ID, f.hid)
		if f.open {
			fmt.Fprintf(&sb, "(open %#x)", f.mode)
		}
		if f.openUnknown {
			sb.WriteString("(open?)")
		}
	}
	return sb.String()
}

func qidsEqual(a, b []p9p.Qid) bool {
	if len(a) != len(b) {
		return false
	}
	for i := range a {
		if a[i] != b[i] {
			return false
		}
	}
	return true
}

// Step executes op, compares the outcome and the resulting fid table with the
// reference model, and advances the model.  It returns a violation of the fid
// state machine (C08) or "" .
func (e *Env) Step(op Op) (violation string, hung bool) {
	x := e.expect(op)
	idBefore := e.FS.MaxHandleID()
	e.Calls = nil
	e.curFault, e.curPart, e.faultUsed = op.Fault, op.Partial, false
	e.curPH = op.FaultPH
	var parentH *mockfs.Handle
	if x.lenient {
		if tab, err := e.Table(); err == nil {
			parentH = tab[op.Fid].H
			if parentH != nil {
				parentH.Exempt = true
			}
		}
	}
	r, hung := e.call(op)
	e.curFault, e.curPart = "", 0
	e.Trace = append(e.Trace, op.String())
	if hung {
		return fmt.Sprintf("%s did not return within %v (model:%s)", op, e.OpTimeout, e.describeModel()), true
	}
	bad := func(format string, a ...any) (string, bool) {
		return fmt.Sprintf("%s: ", op) + fmt.Sprintf(format, a...) + fmt.Sprintf(" (model before:%s)", e.describeModel()), false
	}
	if x.lenient {
		for _, h := range e.FS.AllHandles() {
			if h.ID > idBefore {
				h.Exempt = true
			}
		}
	}

	failed := r.err != nil
	succeededAmbiguously := false
	switch {
	case x.either && !x.fail:
		// undetermined by the text: if it failed nothing may change; if it
		// succeeded the success effects apply
		if !failed {
			succeededAmbiguously = true
		}
	case x.fail && !failed:
		return bad("succeeded, but must fail: %s", x.why)
	case !x.fail && failed:
		return bad("failed with %v, but must succeed", r.err)
	}
	if failed && x.dup && !x.either && !isDupErr(r.err) {
		return bad("failed with %v; the property requires the duplicate-fid error", r.err)
	}
	_ = succeededAmbiguously

	// results on success
	if !failed {
		if x.qid != nil && r.qid != *x.qid {
			return bad("returned qid %v, want %v", r.qid, *x.qid)
		}
		if op.Kind == "walk" && !qidsEqual(r.qids, x.qids) && !x.fail {
			return bad("returned qids %v, want %v", r.qids, x.qids)
		}
		if x.checkData && string(r.data) != string(x.data) {
			return bad("read %q, file holds %q at that range", r.data, x.data)
		}
		if x.checkN && r.n != x.n {
			return bad("wrote %d bytes, want %d", r.n, x.n)
		}
		if x.dir != nil && (r.dir.Qid != x.dir.Qid || r.dir.Name != x.dir.Name || r.dir.Length != x.dir.Length || r.dir.Mode != x.dir.Mode) {
			return bad("stat returned %v, want %v", r.dir, *x.dir)
		}
	}

	// the primary file-system call arrived at the handle bound to the fid
	if x.primary != "" && x.target != 0 && !(failed && x.either) {
		seen := false
		for _, c := range e.Calls {
			if c.Op == x.primary {
				seen = true
				if c.Handle == nil || c.Handle.ID != x.target {
					id := 0
					if c.Handle != nil {
						id = c.Handle.ID
					}
					return bad("file-system call %s arrived at handle %d, but the fid is bound to handle %d", x.primary, id, x.target)
				}
				break
			}
		}
		if !seen && !x.either {
			return bad("expected the file-system call %q, saw %v", x.primary, callNames(e.Calls))
		}
	}

	// advance the model
	apply := !failed
	if x.unbind {
		delete(e.Model, op.Fid)
	}
	tab, err := e.Table()
	if err != nil {
		return bad("%v", err)
	}
	if x.lenient {
		// accepted end states: fid unbound, or bound (closed) to the new directory
		te, ok := tab[op.Fid]
		if ok && te.HasEnt {
			if te.H.ID <= idBefore {
				return bad("after the failed create the fid is still bound to the consumed parent handle %d", te.H.ID)
			}
			e.Model[op.Fid] = &mfid{node: te.H.Node, hid: te.H.ID, open: te.Open, mode: te.Mode}
			e.EverBound[te.H.ID] = true
			te.H.Exempt = true
		} else {
			delete(e.Model, op.Fid)
		}
	} else if apply && x.doBind {
		te, ok := tab[x.bind]
		if !ok || !te.HasEnt {
			return bad("succeeded but fid %d is not bound afterwards", int32(x.bind))
		}
		h := te.H
		if h.ID <= idBefore || !h.Counted || h.Placeholder {
			return bad("fid %d is bound to handle %d, which is not an entry the file system returned to this call", int32(x.bind), h.ID)
		}
		node := x.bindNode
		if op.Kind == "create" {
			node = h.Node
			if node == nil || node.Name != op.Name || node.Parent == nil {
				return bad("fid is not bound to the created file")
			}
			q := node.Qid()
			if r.qid != q {
				return bad("returned qid %v, created file has %v", r.qid, q)
			}
		}
		if h.Node != node {
			return bad("fid %d is bound to an entry for node %v, want node %d", int32(x.bind), h.Node, node.ID)
		}
		nf := &mfid{node: node, hid: h.ID, open: x.bindOpen, mode: x.bindMode}
		if x.inplaceUnknownOpen {
			nf.open, nf.openUnknown = false, true
		}
		e.Model[x.bind] = nf
		e.EverBound[h.ID] = true
	} else if apply && x.openAfter {
		f := e.Model[op.Fid]
		f.open, f.openUnknown, f.mode = true, false, op.Mode
	}
	if op.Kind == "write" && !failed && x.checkN {
		// mirror the data change (mockfs already applied it to its node)
	}

	// the real table must equal the model
	if v := e.compare(tab); v != "" {
		return bad("%s", v)
	}
	return "", false
}

func callNames(cs []mockfs.Call) []string {
	var out []string
	for _, c := range cs {
		out = append(out, c.Op)
	}
	return out
}

// compare checks the real fid table against the model.
func (e *Env) compare(tab map[uint32]TEntry) string {
	seen := map[int]uint32{}
	for fid, te := range tab {
		if te.Locked {
			return fmt.Sprintf("fid %d is left locked after the operation returned", int32(fid))
		}
		if !te.HasEnt {
			return fmt.Sprintf("fid %d is left reserved (in the table without an entry) after the operation returned", int32(fid))
		}
		mf, ok := e.Model[fid]
		if !ok {
			return fmt.Sprintf("fid %d is bound (handle %d, node %v) but the reference table has it unbound", int32(fid), te.H.ID, nodeID(te.H.Node))
		}
		if te.H.ID != mf.hid {
			return fmt.Sprintf("fid %d is bound to handle %d, reference table says handle %d", int32(fid), te.H.ID, mf.hid)
		}
		if other, dup := seen[te.H.ID]; dup {
			return fmt.Sprintf("fids %d and %d share one entry object (handle %d)", int32(other), int32(fid), te.H.ID)
		}
		seen[te.H.ID] = fid
		if !mf.openUnknown {
			if te.Open != mf.open {
				return fmt.Sprintf("fid %d open=%v, reference table says open=%v", int32(fid), te.Open, mf.open)
			}
			if mf.open && te.Mode != mf.mode {
				return fmt.Sprintf("fid %d open mode %#x, reference table says %#x", int32(fid), te.Mode, mf.mode)
			}
		}
	}
	for fid, mf := range e.Model {
		if _, ok := tab[fid]; !ok {
			return fmt.Sprintf("fid %d is unbound but the reference table has it bound to node %d", int32(fid), mf.node.ID)
		}
	}
	return ""
}

func nodeID(n *mockfs.Node) any {
	if n == nil {
		return "<none>"
	}
	return n.ID
}

// ReleaseAudit checks C13 at a quiescent point: no bound handle is released;
// and (final=true, after Stop) every handle that was ever bound has been
// released exactly once, never used afterwards, and nothing remains bound.
func (e *Env) ReleaseAudit(final bool) string {
	tab, err := e.Table()
	if err != nil {
		return err.Error()
	}
	for fid, te := range tab {
		if te.HasEnt && te.H.Released() && !te.H.Exempt {
			return fmt.Sprintf("fid %d stays bound to handle %d, which was already released by %s", int32(fid), te.H.ID, te.H.ReleasedBy())
		}
		if final && te.HasEnt {
			return fmt.Sprintf("fid %d is still bound (handle %d) after Stop", int32(fid), te.H.ID)
		}
		if final && te.Locked {
			return fmt.Sprintf("fid %d is left locked after Stop", int32(fid))
		}
	}
	for _, v := range e.FS.Violations() {
		if strings.Contains(v, "released twice") || strings.Contains(v, "after its release") || strings.Contains(v, "placeholder") {
			return v
		}
	}
	if final {
		for _, h := range e.FS.AllHandles() {
			if !e.EverBound[h.ID] || h.Exempt {
				continue
			}
			if n := h.ReleaseCount(); n != 1 {
				return fmt.Sprintf("handle %d (node %v) was bound to a fid and has been released %d times after Stop", h.ID, nodeID(h.Node), n)
			}
		}
	}
	return ""
}

// stepTolerant executes op and re-synchronises the model from the real table
// instead of judging it: used by C13, whose verdict is about releases only.
func (e *Env) stepTolerant(op Op) (string, bool) {
	x := e.expect(op)
	idBefore := e.FS.MaxHandleID()
	e.Calls = nil
	e.curFault, e.curPart, e.faultUsed = op.Fault, op.Partial, false
	e.curPH = op.FaultPH
	if x.lenient {
		if tab, err := e.Table(); err == nil {
			if h := tab[op.Fid].H; h != nil {
				h.Exempt = true
			}
		}
	}
	_, hung := e.call(op)
	e.curFault, e.curPart = "", 0
	e.Trace = append(e.Trace, op.String())
	if hung {
		return "", true
	}
	if x.lenient {
		for _, h := range e.FS.AllHandles() {
			if h.ID > idBefore {
				h.Exempt = true
			}
		}
	}
	tab, err := e.Table()
	if err != nil {
		return err.Error(), false
	}
	e.Model = map[uint32]*mfid{}
	for fid, te := range tab {
		if te.HasEnt && te.H != nil && te.H.Node != nil {
			e.Model[fid] = &mfid{node: te.H.Node, hid: te.H.ID, open: te.Open, mode: te.Mode}
			e.EverBound[te.H.ID] = true
		}
	}
	return "", false
}

// ValidNames reports whether a walk name list is in the normal form the session accepts.
func ValidNames(names []string) bool { return validNames(names) }

// SyncDir is the stat record in which every field says "don't touch" (all ones on the wire,
// empty strings): wstat(5)'s request to commit the file to stable storage.
func SyncDir() p9p.Dir {
	return p9p.Dir{Type: ^uint16(0), Dev: ^uint32(0), Qid: p9p.Qid{Type: 0xFF, Version: ^uint32(0), Path: ^uint64(0)}, Mode: ^uint32(0),
		AccessTime: time.Unix(0xFFFFFFFF, 0), ModTime: time.Unix(0xFFFFFFFF, 0), Length: ^uint64(0)}
}
