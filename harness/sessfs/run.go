package sessfs

import (
	"fmt"
	"strings"
	"time"

	"verifharness/internal/harn"
)

func trace(e *Env) string {
	t := e.Trace
	if len(t) > 40 {
		t = append([]string{"…"}, t[len(t)-40:]...)
	}
	return strings.Join(t, "; ")
}

// RunC08: the session behaves like the reference fid table after every step.
func RunC08(c SessCase) harn.Result {
	e := NewEnv()
	res := harn.Result{}
	cl := map[string]bool{}
	for i, op := range c.Ops {
		classifyC08(e, op, cl)
		v, hung := e.Step(op)
		if v != "" {
			return harn.Fail("step %d: %s [history: %s]", i, v, trace(e))
		}
		if hung {
			break
		}
	}
	for k := range cl {
		res.Classes = append(res.Classes, k)
	}
	res.NonTrivial = cl["walk_onto_bound"] || cl["inplace_walk"] || cl["partial_walk"] || cl["reuse_after_clunk"] || cl["io_wrong_mode"]
	return res
}

func classifyC08(e *Env, op Op, cl map[string]bool) {
	_, bound := e.Model[op.Fid]
	switch op.Kind {
	case "walk":
		if _, nb := e.Model[op.Newfid]; nb && op.Newfid != op.Fid && bound {
			cl["walk_onto_bound"] = true
		}
		if bound && op.Newfid == op.Fid && len(op.Names) > 0 {
			cl["inplace_walk"] = true
		}
		if bound && validNames(op.Names) && len(op.Names) > 1 {
			x := e.expect(op)
			if !x.fail && !x.doBind && len(x.qids) > 0 {
				cl["partial_walk"] = true
			}
		}
		if !bound {
			cl["walk_unbound"] = true
		}
	case "attach":
		if bound {
			cl["attach_onto_bound"] = true
		}
		if e.everUnbound[op.Fid] && !bound {
			cl["reuse_after_clunk"] = true
		}
	case "clunk", "remove":
		if bound {
			e.everUnbound[op.Fid] = true
		}
	case "read", "write":
		if f, ok := e.Model[op.Fid]; ok {
			if !f.open || (op.Kind == "read" && !readAllowed(f.mode)) || (op.Kind == "write" && !writeAllowed(f.mode)) {
				cl["io_wrong_mode"] = true
			} else {
				cl["io_allowed"] = true
			}
		}
	case "open":
		if f, ok := e.Model[op.Fid]; ok && f.open {
			cl["second_open"] = true
		}
	case "create":
		if bound {
			cl["create_on_bound"] = true
		}
	}
	if op.Fid == NOFID {
		cl["nofid"] = true
	}
	if op.Fault != "" {
		cl["fs_error_injected"] = true
	}
}

// RunC13: every entry that became bound is released exactly once, never used
// after release, never released while bound; after Stop nothing is bound.
func RunC13(c SessCase) harn.Result {
	e := NewEnv()
	e.OpTimeout = 8 * time.Second
	res := harn.Result{}
	n := c.StopAt
	if n > len(c.Ops) {
		n = len(c.Ops)
	}
	faultAfterHandle := false
	for i, op := range c.Ops[:n] {
		if op.Fault != "" {
			if _, bound := e.Model[op.Fid]; bound {
				faultAfterHandle = true
			}
		}
		// the state-machine verdict is C08's business; here the model is only
		// advanced so that the audit knows which handles were bound
		_, hung := e.stepTolerant(op)
		if hung {
			return harn.Fail("step %d: %s did not return within %v — an entry lock is never released [history: %s]", i, op, e.OpTimeout, trace(e))
		}
		if v := e.ReleaseAudit(false); v != "" {
			return harn.Fail("after step %d (%s): %s [history: %s]", i, op, v, trace(e))
		}
	}
	// Stop
	done := make(chan error, 1)
	e.Calls = nil
	go func() { done <- e.Sess.Stop(fmt.Errorf("shutdown")) }()
	select {
	case <-done:
	case <-time.After(e.OpTimeout):
		return harn.Fail("Stop did not return within %v [history: %s]", e.OpTimeout, trace(e))
	}
	if v := e.ReleaseAudit(true); v != "" {
		return harn.Fail("after Stop: %s [history: %s]", v, trace(e))
	}
	res.NonTrivial = faultAfterHandle
	if faultAfterHandle {
		res.Classes = append(res.Classes, "fault_on_bound_fid")
	}
	if n < len(c.Ops) {
		res.Classes = append(res.Classes, "stop_midway")
	}
	if len(e.EverBound) > 0 {
		res.Classes = append(res.Classes, "handles_bound")
	}
	return res
}
