package frame

import (
	"testing"

	"verifharness/internal/harn"
)

func TestMain(m *testing.M) { harn.Main(m) }

func init() {
	harn.Register("C02_Write", RunWrite)
	harn.Register("C03_Read", RunRead)
	harn.Register("C02_RW", RunRW)
	harn.Register("C03_Wait", RunWait)
}

func TestReplay(t *testing.T)  { harn.Replay(t) }
func TestRegress(t *testing.T) { harn.Regress(t) }

func TestC02_Write(t *testing.T) { harn.Check(t, "C02_Write", GenWriteCase, RunWrite) }

func TestC02_RW(t *testing.T) { harn.Check(t, "C02_RW", GenRWCase, RunRW) }

func TestC03_Read(t *testing.T) { harn.Check(t, "C03_Read", GenReadCase, RunRead) }

func TestC03_Wait(t *testing.T) { harn.Check(t, "C03_Wait", GenWaitCase, RunWait) }

func FuzzFraming(f *testing.F) {
	for _, s := range framingCorpus() {
		f.Add(s)
	}
	f.Fuzz(func(t *testing.T, in []byte) {
		if len(in) > 1<<14 {
			return
		}
		if err := SplitAndCheck(in); err != nil {
			t.Fatalf("VERIF-FAIL test=FuzzFraming: %v", err)
		}
	})
}
