package frame

// C03, "each read consumes exactly one frame ... every later well-formed frame
// is still delivered": a ReadFcall that is already waiting for a frame when
// its context ends.  Whatever such a read returns, no frame may be lost: if it
// returns an error, the frame it was waiting for (which arrives afterwards,
// possibly after part of it had already arrived) must be delivered by the
// next read.

import (
	"context"
	"fmt"
	"reflect"
	"time"

	p9p "github.com/frobnitzem/go-p9p"
	"pgregory.net/rapid"

	"verifharness/internal/gen"
	"verifharness/internal/harn"
	"verifharness/internal/memconn"
	"verifharness/internal/refwire"
)

type WaitStep struct {
	Msg    refwire.Msg
	Cancel bool // the read is issued first, its context is cancelled while it waits, then the frame arrives
	Before int  // Cancel: this many bytes of the frame are already there when the context ends
}

type WaitCase struct {
	MSize int
	Steps []WaitStep
}

func GenWaitCase(t *rapid.T) WaitCase {
	c := WaitCase{MSize: rapid.SampledFrom([]int{64, 200, 4096}).Draw(t, "msize")}
	n := rapid.IntRange(1, 6).Draw(t, "n")
	cancels := 0
	for i := 0; i < n; i++ {
		m := gen.AnyMsg(gen.Sizes{}).Draw(t, "msg")
		gen.Shrink(&m, 3)
		if 4+len(refwire.Encode(&m)) > c.MSize {
			m = refwire.Msg{Kind: refwire.Tclunk, Tag: m.Tag, Fid: m.Fid}
		}
		if m.Kind == refwire.Tread && int(m.Count) > c.MSize-11 {
			m.Count = 1
		}
		st := WaitStep{Msg: m}
		if cancels < 3 && rapid.IntRange(0, 2).Draw(t, "cancel") > 0 {
			st.Cancel = true
			cancels++
			st.Before = rapid.SampledFrom([]int{0, 0, 1, 3, 4, 5, 7}).Draw(t, "before")
		}
		c.Steps = append(c.Steps, st)
	}
	return c
}

func RunWait(c WaitCase) harn.Result {
	a, b := memconn.NewPair(memconn.Options{})
	defer a.Close()
	defer b.Close()
	ch := p9p.NewChannel(a, c.MSize)
	res := harn.Result{}
	type rr struct {
		fc  *p9p.Fcall
		err error
	}
	read := func(ctx context.Context) chan rr {
		out := make(chan rr, 1)
		go func() {
			fc := new(p9p.Fcall)
			err := ch.ReadFcall(ctx, fc)
			out <- rr{fc, err}
		}()
		return out
	}
	await := func(ch chan rr, what string) (rr, error) {
		select {
		case r := <-ch:
			return r, nil
		case <-time.After(10 * time.Second):
			return rr{}, fmt.Errorf("%s did not return within 10s although its frame is complete", what)
		}
	}
	for i, st := range c.Steps {
		frame := refwire.Frame(&st.Msg)
		want := refwire.Canon(&st.Msg)
		var got rr
		var err error
		if !st.Cancel {
			b.Write(frame)
			if got, err = await(read(context.Background()), fmt.Sprintf("read #%d", i)); err != nil {
				return harn.Fail("%v", err)
			}
		} else {
			before := st.Before
			if before >= len(frame) {
				before = len(frame) - 1
			}
			b.Write(frame[:before])
			ctx, cancel := context.WithCancel(context.Background())
			pending := read(ctx)
			time.Sleep(time.Millisecond) // let it block in the connection's Read
			cancel()
			time.Sleep(300 * time.Microsecond)
			b.Write(frame[before:])
			got, err = await(pending, fmt.Sprintf("read #%d (context cancelled while waiting)", i))
			cancel()
			if err != nil {
				return harn.Fail("%v", err)
			}
			res.NonTrivial = true
			if got.err != nil {
				res.Classes = append(res.Classes, "cancelled_read_failed")
				// the frame must not have been consumed
				if got, err = await(read(context.Background()), fmt.Sprintf("read #%d (retry)", i)); err != nil {
					return harn.Fail("frame %d (%s) was lost: the read that was waiting for it when its context was cancelled returned an error, and the next read finds nothing: %v", i, js(want), err)
				}
				if got.err != nil {
					return harn.Fail("frame %d (%s): the read whose context was cancelled while it waited returned an error, and the next read returned %v instead of the frame", i, js(want), got.err)
				}
			} else {
				res.Classes = append(res.Classes, "cancelled_read_delivered")
			}
		}
		if got.err != nil {
			return harn.Fail("read #%d of a well-formed frame (%s) failed: %v", i, js(want), got.err)
		}
		m, cerr := gen.FromFcall(got.fc)
		if cerr != nil {
			return harn.Fail("read #%d returned a malformed Fcall: %v", i, cerr)
		}
		if !reflect.DeepEqual(m, want) {
			return harn.Fail("read #%d delivered %s, but the next frame on the stream is %s (a frame was lost or altered; step cancel=%v before=%d)", i, js(m), js(want), st.Cancel, st.Before)
		}
	}
	return res
}
