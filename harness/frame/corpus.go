package frame

import (
	"verifharness/internal/harn"
	"verifharness/internal/refwire"
)

func framingCorpus() [][]byte {
	var out [][]byte
	var all []byte
	for _, k := range refwire.Kinds {
		m := refwire.Msg{Kind: k, Tag: 7, MSize: 8192, Version: harn.B("9P2000"), Afid: 1, Uname: harn.B("u"), Aname: harn.B("a"),
			Fid: 2, Newfid: 3, Ename: harn.B("err"), Oldtag: 4, Wnames: []harn.B{harn.B("x")}, Qids: []refwire.Q{{Type: 1, Version: 2, Path: 3}},
			Mode: 1, IOUnit: 9, Name: harn.B("n"), Perm: 0644, Offset: 10, Count: 11, Data: harn.B("data"),
			Stat: refwire.D{Name: harn.B("n"), UID: harn.B("u")}}
		fr := refwire.Frame(&m)
		out = append(out, append([]byte{100, 0}, fr...))
		all = append(all, fr...)
	}
	out = append(out, append([]byte{200, 0}, all...))
	for _, pfx := range [][]byte{{0, 0, 0, 0}, {1, 0, 0, 0}, {3, 0, 0, 0}, {4, 0, 0, 0}, {5, 0, 0, 0, 100}, {6, 0, 0, 0, 100, 0}, {0xff, 0xff, 0xff, 0xff}, {0xff, 0xff, 0xff, 0x7f}} {
		tw := refwire.Frame(&refwire.Msg{Kind: refwire.Twrite, Fid: 1, Data: harn.B("abcdefgh")})
		out = append(out, append(append([]byte{0, 0}, tw...), pfx...))
		out = append(out, append(append(append([]byte{0, 0}, tw...), pfx...), tw...))
	}
	return out
}
