package frame

import (
	"bytes"
	"context"
	"encoding/binary"
	"encoding/json"
	"fmt"
	"reflect"
	"runtime/debug"
	"strings"

	p9p "github.com/frobnitzem/go-p9p"
	"pgregory.net/rapid"

	"verifharness/internal/gen"
	"verifharness/internal/harn"
	"verifharness/internal/memconn"
	"verifharness/internal/refwire"
)

// FrameSpec describes one element of an inbound byte stream.
type FrameSpec struct {
	Class string // valid | fill | oversize | garbage | short | tiny | badprefix | cutstream | cutoversize | hugeprefix
	Msg   refwire.Msg
	K     int    // oversize: excess over msize; short: bytes cut from the body; tiny: prefix value 4..6; badprefix: 0..3; cutstream: bytes kept
	Body  harn.B // garbage: the body bytes
}

type ReadCase struct {
	Init   int // ≠0: the channel is created with this msize and then SetMSize(MSize) is called (what version negotiation does)
	MSize  int
	Frames []FrameSpec
	Plan   []int // read chunk sizes (cycled); empty = whole-buffer reads
	// ResizeAt > 0: before reading frame number ResizeAt the channel's msize is changed to
	// ResizeTo with SetMSize (between two reads, as the interface allows); frames from
	// there on are built for, and judged against, the new msize
	ResizeAt int `json:",omitempty"`
	ResizeTo int `json:",omitempty"`
}

func (c *ReadCase) msizeAt(i int) int {
	if c.ResizeAt > 0 && i >= c.ResizeAt {
		return c.ResizeTo
	}
	return c.MSize
}

// bytesOf renders a spec for msize; final=true means nothing may follow it.
func (f *FrameSpec) bytesOf(msize int) (raw []byte, final bool) {
	switch f.Class {
	case "valid":
		return refwire.Frame(&f.Msg), false
	case "fill":
		// a Twrite or Rread whose frame is exactly msize + K (K ≤ 0)
		m := f.Msg
		hdr := 4 + len(refwire.Encode(&refwire.Msg{Kind: m.Kind, Tag: m.Tag, Fid: m.Fid, Offset: m.Offset}))
		n := msize + f.K - hdr
		if n < 0 {
			n = 0
		}
		m.Data, m.Blob = nil, harn.Blob{N: n, K: byte(m.Tag)}
		return refwire.Frame(&m), false
	case "oversize":
		// a frame of total length msize+K; content is a Twrite/Rread blob or junk
		total := msize + f.K
		body := make([]byte, total-4)
		enc := refwire.Encode(&f.Msg)
		copy(body, enc)
		for i := len(enc); i < len(body); i++ {
			body[i] = byte(i * 13)
		}
		return refwire.FrameRaw(body), false
	case "garbage", "statpad":
		return refwire.FrameRaw(f.Body), false
	case "short":
		enc := refwire.Encode(&f.Msg)
		cut := f.K
		if cut > len(enc) {
			cut = len(enc)
		}
		return refwire.FrameRaw(enc[:len(enc)-cut]), false
	case "tiny":
		// prefix 4, 5 or 6 with that many bytes in total
		enc := refwire.Encode(&f.Msg)
		return refwire.FrameRaw(enc[:f.K-4]), false
	case "badprefix":
		p := make([]byte, 4)
		binary.LittleEndian.PutUint32(p, uint32(f.K))
		return append(p, 0x75, 0, 0, 0), true
	case "cutoversize":
		// an oversize frame (msize + 5 + len(Body) claimed) of which only the first K bytes exist:
		// the stream ends inside the part that must be discarded (or before it)
		total := msize + 5 + len(f.Body)
		body := make([]byte, total-4)
		copy(body, refwire.Encode(&f.Msg))
		full := refwire.FrameRaw(body)
		keep := f.K
		if keep >= len(full) {
			keep = len(full) - 1
		}
		if keep < 1 {
			keep = 1
		}
		return full[:keep], true
	case "hugeprefix":
		// a length prefix of 2^31 or more (or just below), followed by bytes that look like
		// well-formed frames: they are all part of the one enormous frame, which the
		// stream cannot complete
		p := make([]byte, 4)
		binary.LittleEndian.PutUint32(p, hugePrefixes[f.K%len(hugePrefixes)])
		one := refwire.Frame(&f.Msg)
		for i := 0; i < 1+len(f.Body)%3; i++ {
			p = append(p, one...)
		}
		return p, true
	case "cutstream":
		full := refwire.Frame(&f.Msg)
		keep := f.K
		if keep >= len(full) {
			keep = len(full) - 1
		}
		if keep < 1 {
			keep = 1
		}
		return full[:keep], true
	}
	panic("bad class " + f.Class)
}

var hugePrefixes = []uint32{0x80000000, 0x80000001, 0x80000017, 0xFFFFFFFF, 0xFFFFFFFB, 0x7FFFFFFF, 0xC0000000, 0x8000FFFF, 0x00010000 + 0x7FFF0000}

type expect struct {
	msg      *refwire.Msg // non-nil: this message must be delivered
	overflow int          // >0: Overflow(err) must equal this
	anyErr   bool         // some error, no panic
}

// expectation for a frame, from construction + the reference decoder on the
// frame's own body bytes and msize only.
func expectFor(raw []byte, msize int, final bool) expect {
	if final || len(raw) < 4 {
		return expect{anyErr: true}
	}
	total := int(binary.LittleEndian.Uint32(raw))
	if total > msize {
		return expect{overflow: total - msize}
	}
	m, _, err := refwire.Decode(raw[4:])
	if err != nil {
		return expect{anyErr: true}
	}
	c := refwire.Canon(m)
	if c.Kind == refwire.Tread && int64(c.Count) > int64(msize-11) {
		c.Count = uint32(msize - 11)
	}
	return expect{msg: c}
}

func genFrame(t *rapid.T, msize int, last bool) FrameSpec {
	classes := []string{"valid", "valid", "valid", "fill", "oversize", "garbage", "short", "short", "tiny", "statpad"}
	if last {
		classes = append(classes, "badprefix", "badprefix", "cutstream", "cutstream", "cutoversize", "hugeprefix")
	}
	f := FrameSpec{Class: rapid.SampledFrom(classes).Draw(t, "class")}
	small := func() refwire.Msg {
		m := gen.AnyMsg(gen.Sizes{}).Draw(t, "msg")
		gen.Shrink(&m, rapid.SampledFrom([]int{0, 3, 40}).Draw(t, "cap"))
		for 4+len(refwire.Encode(&m)) > msize {
			gen.Shrink(&m, 0)
			if 4+len(refwire.Encode(&m)) > msize {
				m = refwire.Msg{Kind: refwire.Tclunk, Tag: m.Tag, Fid: m.Fid}
			}
		}
		return m
	}
	switch f.Class {
	case "valid":
		f.Msg = small()
		if f.Msg.Kind == refwire.Tread && rapid.Bool().Draw(t, "bigcount") {
			f.Msg.Count = uint32(msize - 11 + rapid.IntRange(-2, 40).Draw(t, "cd"))
		}
	case "fill":
		f.Msg = refwire.Msg{Kind: rapid.SampledFrom([]uint8{refwire.Twrite, refwire.Rread}).Draw(t, "fillkind"), Tag: gen.U16().Draw(t, "tag"), Fid: gen.U32().Draw(t, "fid"), Offset: gen.U64().Draw(t, "off")}
		f.K = -rapid.IntRange(0, 5).Draw(t, "under")
	case "oversize":
		f.Msg = small()
		f.K = rapid.OneOf(rapid.SampledFrom([]int{1, 2, 3, 4, 5, 23}), rapid.IntRange(1, 3000)).Draw(t, "k")
	case "statpad":
		// a well-formed Rstat/Twstat whose stat record is longer than its known fields (both
		// size fields say so consistently): the manual's size[2] exists so that the record can
		// grow, and the pinned decoder honours it.  Falls back to a plain message when msize is too small.
		m := refwire.Msg{Kind: rapid.SampledFrom([]uint8{refwire.Rstat, refwire.Twstat}).Draw(t, "statkind"), Tag: gen.U16().Draw(t, "tag"), Fid: gen.U32().Draw(t, "fid"), Stat: gen.Stat(gen.Sizes{}).Draw(t, "stat")}
		gen.Shrink(&m, rapid.SampledFrom([]int{0, 3, 40}).Draw(t, "cap"))
		pad := rapid.SampledFrom([]int{1, 2, 14, 30}).Draw(t, "pad")
		enc := refwire.Encode(&m)
		if 4+len(enc)+pad > msize {
			f.Class = "valid"
			f.Msg = small()
			break
		}
		off := 3
		if m.Kind == refwire.Twstat {
			off += 4
		}
		for _, o := range []int{off, off + 2} {
			binary.LittleEndian.PutUint16(enc[o:], binary.LittleEndian.Uint16(enc[o:])+uint16(pad))
		}
		for i := 0; i < pad; i++ {
			enc = append(enc, byte(0xE0+i))
		}
		f.Body = harn.B(enc)
	case "garbage":
		n := rapid.IntRange(0, 40).Draw(t, "n")
		if n > msize-4 {
			n = msize - 4
		}
		b := rapid.SliceOfN(rapid.Byte(), n, n).Draw(t, "body")
		if len(b) > 0 && rapid.Bool().Draw(t, "badtype") {
			b[0] = rapid.SampledFrom([]byte{0, 99, 106, 128, 255}).Draw(t, "type")
		}
		f.Body = harn.B(b)
	case "short":
		f.Msg = small()
		n := len(refwire.Encode(&f.Msg))
		f.K = rapid.IntRange(1, n).Draw(t, "cut")
	case "tiny":
		f.Msg = small()
		f.K = rapid.IntRange(4, 6).Draw(t, "prefix")
	case "badprefix":
		f.K = rapid.IntRange(0, 3).Draw(t, "prefix")
	case "cutstream":
		f.Msg = small()
		f.K = rapid.IntRange(1, 4+len(refwire.Encode(&f.Msg))-1).Draw(t, "keep")
	case "cutoversize":
		f.Msg = small()
		extra := rapid.IntRange(0, 60).Draw(t, "extra")
		f.Body = make(harn.B, extra)
		total := msize + 5 + extra
		f.K = rapid.OneOf(rapid.IntRange(msize, total-1), rapid.IntRange(1, total-1), rapid.SampledFrom([]int{total - 1, total - 2, msize + 1, msize + 4})).Draw(t, "keep")
	case "hugeprefix":
		f.Msg = small()
		f.K = rapid.IntRange(0, len(hugePrefixes)-1).Draw(t, "which")
		f.Body = make(harn.B, rapid.IntRange(0, 2).Draw(t, "reps"))
	}
	return f
}

func GenReadCase(t *rapid.T) ReadCase {
	var c ReadCase
	c.MSize = rapid.OneOf(rapid.IntRange(24, 64), rapid.IntRange(24, 400), rapid.SampledFrom([]int{24, 4096, 8192})).Draw(t, "msize")
	switch rapid.IntRange(0, 3).Draw(t, "initclass") {
	case 0:
		c.Init = 65536 // as CSession / ServeConn do: created with the default, shrunk by negotiation
	case 1:
		c.Init = rapid.IntRange(24, 9000).Draw(t, "init") // arbitrary earlier msize: shrink or grow
	}
	maxFrames := 8
	if harn.Thorough() {
		maxFrames = 20
	}
	n := rapid.IntRange(1, maxFrames).Draw(t, "nframes")
	if n >= 2 && rapid.IntRange(0, 3).Draw(t, "resize") == 0 {
		c.ResizeAt = rapid.IntRange(1, n-1).Draw(t, "resizeat")
		c.ResizeTo = rapid.OneOf(rapid.Just(c.MSize), rapid.IntRange(c.MSize, c.MSize+300), rapid.IntRange(24, 400)).Draw(t, "resizeto")
	}
	for i := 0; i < n; i++ {
		c.Frames = append(c.Frames, genFrame(t, c.msizeAt(i), i == n-1))
	}
	switch rapid.IntRange(0, 3).Draw(t, "planclass") {
	case 0:
	case 1:
		c.Plan = []int{1}
	case 2:
		c.Plan = rapid.SliceOfN(rapid.IntRange(1, 7), 1, 12).Draw(t, "plan")
	default:
		c.Plan = rapid.SliceOfN(rapid.IntRange(1, 600), 1, 12).Draw(t, "plan")
	}
	return c
}

// readAll feeds stream to a fresh channel and performs nreads ReadFcall calls.
type outcome struct {
	msg      *refwire.Msg
	err      error
	overflow int
}

func libPanic(stack []byte) bool {
	// innermost non-runtime frame after the panic belongs to go-p9p?
	lines := strings.Split(string(stack), "\n")
	seenPanic := false
	for _, l := range lines {
		if strings.HasPrefix(l, "panic(") {
			seenPanic = true
			continue
		}
		if !seenPanic || strings.HasPrefix(l, "\t") || strings.HasPrefix(l, "runtime.") || l == "" {
			continue
		}
		return true // any frame: the read loop only calls library code
	}
	return true
}

func readStream(msize int, stream []byte, plan []int, nreads int) (outs []outcome, perr error) {
	return readStreamInit(0, msize, stream, plan, nreads)
}

func readStreamInit(init, msize int, stream []byte, plan []int, nreads int) (outs []outcome, perr error) {
	return readStreamResize(init, msize, 0, 0, stream, plan, nreads)
}

func readStreamResize(init, msize, resizeAt, resizeTo int, stream []byte, plan []int, nreads int) (outs []outcome, perr error) {
	a, b := memconn.NewPair(memconn.Options{})
	defer a.Close()
	defer b.Close()
	b.Write(stream)
	b.CloseWrite()
	if len(plan) > 0 {
		// cycle the plan to cover the whole stream
		var full []int
		for n := 0; n < len(stream)+8; {
			for _, p := range plan {
				full = append(full, p)
				n += p
			}
		}
		a.SetReadPlan(full)
	}
	var ch p9p.Channel
	if init != 0 {
		ch = p9p.NewChannel(a, init)
		ch.SetMSize(msize)
	} else {
		ch = p9p.NewChannel(a, msize)
	}
	ctx := context.Background()
	var kept []*p9p.Fcall // every Fcall delivered, to be looked at again after all later reads
	defer func() {
		if perr != nil {
			return
		}
		k := 0
		for i := range outs {
			if outs[i].msg == nil {
				continue
			}
			again, cerr := gen.FromFcall(kept[k])
			k++
			if cerr != nil || !reflect.DeepEqual(again, outs[i].msg) {
				perr = fmt.Errorf("the message delivered by ReadFcall #%d changed after later reads on the channel (it shares memory with the channel's buffer): was %s, now %s", i, js(outs[i].msg), js(again))
				return
			}
		}
	}()
	for i := 0; i < nreads; i++ {
		if resizeAt > 0 && i == resizeAt {
			ch.SetMSize(resizeTo)
		}
		var o outcome
		func() {
			defer func() {
				if r := recover(); r != nil {
					perr = fmt.Errorf("ReadFcall #%d panicked: %v\n%s", i, r, trimStack(debug.Stack()))
				}
			}()
			// a dirty Fcall: ReadFcall must not depend on its previous content
			fc := &p9p.Fcall{Type: p9p.Twrite, Tag: 0x1234, Message: p9p.MessageTwrite{Fid: 9, Data: []byte("stale")}}
			err := ch.ReadFcall(ctx, fc)
			if err != nil {
				o.err = err
				o.overflow = p9p.Overflow(err)
				return
			}
			m, cerr := gen.FromFcall(fc)
			if cerr != nil {
				perr = fmt.Errorf("ReadFcall #%d returned nil error and a malformed Fcall: %v", i, cerr)
				return
			}
			o.msg = m
			kept = append(kept, fc)
		}()
		if perr != nil {
			return outs, perr
		}
		outs = append(outs, o)
	}
	return outs, nil
}

func trimStack(s []byte) string {
	if len(s) > 1200 {
		s = s[:1200]
	}
	return string(s)
}

func describe(o outcome) string {
	if o.err != nil {
		return fmt.Sprintf("error %q (overflow %d)", o.err.Error(), o.overflow)
	}
	return "message " + js(o.msg)
}

func js(m *refwire.Msg) string {
	if m == nil {
		return "<nil>"
	}
	c := *m
	if len(c.Data) > 24 {
		c.Data = append(append(harn.B{}, c.Data[:24]...), "..."...)
	}
	b, _ := json.Marshal(c)
	return refwire.KindName[c.Kind] + string(b)
}

func matches(o outcome, e expect) bool {
	switch {
	case e.msg != nil:
		return o.err == nil && reflect.DeepEqual(o.msg, e.msg)
	case e.overflow > 0:
		return o.err != nil && o.overflow == e.overflow
	default:
		return o.err != nil
	}
}

func sameOutcome(a, b outcome) bool {
	if (a.err == nil) != (b.err == nil) {
		return false
	}
	if a.err != nil {
		return a.overflow == b.overflow
	}
	return reflect.DeepEqual(a.msg, b.msg)
}

func RunRead(c ReadCase) harn.Result {
	var stream []byte
	var raws [][]byte
	var exps []expect
	res := harn.Result{}
	for i := range c.Frames {
		raw, final := c.Frames[i].bytesOf(c.msizeAt(i))
		raws = append(raws, raw)
		exps = append(exps, expectFor(raw, c.msizeAt(i), final))
		stream = append(stream, raw...)
		res.Classes = append(res.Classes, "f_"+c.Frames[i].Class)
		if final && i != len(c.Frames)-1 {
			return harn.Fail("internal: final element not last")
		}
	}
	outs, perr := readStreamResize(c.Init, c.MSize, c.ResizeAt, c.ResizeTo, stream, c.Plan, len(raws)+1)
	if perr != nil {
		return harn.Result{Err: perr}
	}
	if c.Init != 0 {
		res.Classes = append(res.Classes, "after_setmsize")
	}
	if c.ResizeAt > 0 {
		res.Classes = append(res.Classes, "setmsize_between_reads")
	}
	for i, e := range exps {
		if cl := c.Frames[i].Class; (cl == "cutoversize" || cl == "hugeprefix") && outs[i].err != nil && outs[i].overflow > 0 && len(raws[i]) >= 4 {
			if claimed := int64(binary.LittleEndian.Uint32(raws[i])) - int64(c.msizeAt(i)); int64(outs[i].overflow) != claimed {
				return harn.Fail("frame %d (%s: prefix claims %d bytes, msize %d, the stream ends after %d of them): reported as an overflow of %d, which is not the excess (%d) of the frame",
					i, cl, binary.LittleEndian.Uint32(raws[i]), c.msizeAt(i), len(raws[i]), outs[i].overflow, claimed)
			}
		}
		if !matches(outs[i], e) {
			want := "an error"
			if e.msg != nil {
				want = "message " + js(e.msg)
			} else if e.overflow > 0 {
				want = fmt.Sprintf("overflow error of exactly %d", e.overflow)
			}
			return harn.Fail("frame %d (%s, %d bytes, msize %d): got %s; want %s", i, c.Frames[i].Class, len(raws[i]), c.msizeAt(i), describe(outs[i]), want)
		}
		// isolation: the same frame alone on a fresh channel gives the same outcome
		iso, perr := readStream(c.msizeAt(i), raws[i], nil, 1)
		if perr != nil {
			return harn.Result{Err: perr}
		}
		if !sameOutcome(outs[i], iso[0]) {
			return harn.Fail("frame %d (%s): outcome inside the stream (%s) differs from the outcome of the same frame alone (%s)", i, c.Frames[i].Class, describe(outs[i]), describe(iso[0]))
		}
	}
	// after the last frame the stream is exhausted: an error, never a message
	if last := outs[len(outs)-1]; last.err == nil {
		return harn.Fail("read past the end of the stream returned %s", describe(last))
	}
	// non-trivial: ≥2 frames where a non-first frame follows a frame of another class, or a read boundary inside a length prefix
	for i := 1; i < len(c.Frames); i++ {
		if c.Frames[i].Class != c.Frames[i-1].Class {
			res.NonTrivial = true
		}
	}
	if len(c.Plan) > 0 && c.Plan[0] < 4 {
		res.NonTrivial = true
		res.Classes = append(res.Classes, "split_prefix")
	}
	return res
}

// SplitAndCheck is the oracle of the native fuzz target: arbitrary bytes,
// the first two choose msize; a reference splitter cuts the stream into
// frames and each ReadFcall must agree with the isolated reference outcome.
func SplitAndCheck(data []byte) error {
	if len(data) < 2 {
		return nil
	}
	msize := 24 + int(binary.LittleEndian.Uint16(data))%1000
	stream := data[2:]
	var exps []expect
	var sizes []int
	rest := stream
	for {
		if len(rest) < 4 {
			break
		}
		total := int(binary.LittleEndian.Uint32(rest))
		if total < 4 || total > len(rest) {
			break
		}
		exps = append(exps, expectFor(rest[:total], msize, false))
		sizes = append(sizes, total)
		rest = rest[total:]
	}
	outs, perr := readStream(msize, stream, nil, len(exps)+1)
	if perr != nil {
		return perr
	}
	for i, e := range exps {
		if !matches(outs[i], e) {
			return fmt.Errorf("frame %d (%d bytes, msize %d): got %s, reference expects msg=%v overflow=%d", i, sizes[i], msize, describe(outs[i]), js(e.msg), e.overflow)
		}
	}
	if outs[len(exps)].err == nil {
		return fmt.Errorf("read after the last complete frame (%d trailing bytes [% x]) returned %s", len(rest), head(rest), describe(outs[len(exps)]))
	}
	return nil
}

func head(b []byte) []byte {
	if len(b) > 32 {
		return b[:32]
	}
	return b
}

var _ = bytes.Equal
