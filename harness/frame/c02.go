// Package frame decides C02 (no frame written ever exceeds msize) and C03
// (inbound framing stays synchronised, frame-isolated and crash-free) on the
// public p9p.Channel over an in-memory connection.
package frame

import (
	"bytes"
	"context"
	"encoding/binary"
	"fmt"
	"io"
	"time"

	p9p "github.com/frobnitzem/go-p9p"
	"pgregory.net/rapid"

	"verifharness/internal/gen"
	"verifharness/internal/harn"
	"verifharness/internal/memconn"
	"verifharness/internal/refwire"
)

// WOp is one WriteFcall on the channel, optionally preceded by SetMSize.
type WOp struct {
	SetMSize  int // 0: leave the channel's msize as it is
	Msg       refwire.Msg
	Cancelled bool
	MidCancel bool // the context is cancelled inside the call (from the connection's SetWriteDeadline), not before it
}

type WriteCase struct {
	MSize int // msize the channel is created with
	Ops   []WOp
}

const maxMSize = 1 << 20

func clipM(m int) int {
	if m < 24 {
		return 24
	}
	if m > maxMSize {
		return maxMSize
	}
	return m
}

// msizeNear draws an msize that is boundary-dense relative to frame size f.
func msizeNear(t *rapid.T, f int, label string) int {
	switch rapid.IntRange(0, 9).Draw(t, label+"class") {
	case 0, 1, 2, 3, 4, 5:
		return clipM(f + rapid.IntRange(-40, 40).Draw(t, label+"delta"))
	case 6:
		return clipM(rapid.IntRange(24, 64).Draw(t, label))
	case 7:
		return clipM(rapid.SampledFrom([]int{24, 25, 4096, 8192, 65536, maxMSize - 1, maxMSize}).Draw(t, label))
	default:
		return clipM(rapid.IntRange(24, maxMSize).Draw(t, label))
	}
}

func genWMsg(t *rapid.T) refwire.Msg {
	sz := gen.Sizes{Big: harn.Thorough()}
	k := rapid.IntRange(0, 9).Draw(t, "kindclass")
	switch {
	case k < 3:
		return gen.MsgOfKind(refwire.Twrite, sz).Draw(t, "twrite")
	case k < 5:
		m := gen.MsgOfKind(refwire.Tread, sz).Draw(t, "tread")
		return m
	default:
		return gen.AnyMsg(sz).Draw(t, "msg")
	}
}

func GenWriteCase(t *rapid.T) WriteCase {
	var c WriteCase
	n := rapid.IntRange(1, 3).Draw(t, "nops")
	for i := 0; i < n; i++ {
		op := WOp{Msg: genWMsg(t)}
		f := 4 + len(refwire.Encode(&op.Msg))
		m := msizeNear(t, f, "msize")
		if op.Msg.Kind == refwire.Tread {
			// counts around what fits in msize, and around 2^32
			cls := rapid.IntRange(0, 5).Draw(t, "countclass")
			switch cls {
			case 0:
				op.Msg.Count = uint32(m - 11 + rapid.IntRange(-3, 3).Draw(t, "cd"))
			case 1:
				op.Msg.Count = uint32(int64(1<<32) - int64(rapid.IntRange(1, 14).Draw(t, "cd")))
			case 2:
				op.Msg.Count = uint32(1<<31 + rapid.IntRange(-2, 2).Draw(t, "cd"))
			}
		}
		if i == 0 {
			c.MSize = m
			if rapid.IntRange(0, 4).Draw(t, "setanyway") == 0 {
				c.MSize = msizeNear(t, f, "initmsize")
				op.SetMSize = m
			}
		} else {
			if rapid.Bool().Draw(t, "setmsize") {
				op.SetMSize = m
			}
		}
		op.Cancelled = rapid.IntRange(0, 9).Draw(t, "cancelled") == 0
		op.MidCancel = !op.Cancelled && rapid.IntRange(0, 7).Draw(t, "midcancel") == 0
		c.Ops = append(c.Ops, op)
	}
	return c
}

func RunWrite(c WriteCase) harn.Result {
	a, b := memconn.NewPair(memconn.Options{})
	defer a.Close()
	defer b.Close()
	ch := p9p.NewChannel(a, c.MSize)
	msize := c.MSize
	res := harn.Result{}
	for i, op := range c.Ops {
		if op.SetMSize != 0 {
			ch.SetMSize(op.SetMSize)
			msize = op.SetMSize
		}
		if ch.MSize() != msize {
			return harn.Fail("op %d: MSize() = %d after setting %d", i, ch.MSize(), msize)
		}
		m := op.Msg
		name := refwire.KindName[m.Kind]
		full := refwire.Frame(&m)
		F := len(full)
		fc := gen.ToFcall(&m, 0)
		payload := m.Payload()
		payloadCopy := append([]byte(nil), payload...)
		// the slice actually handed to the library, to detect in-place modification
		var handed []byte
		switch v := fc.Message.(type) {
		case p9p.MessageTwrite:
			handed = v.Data
		case p9p.MessageRread:
			handed = v.Data
		}
		a.ResetTap()
		ctx := context.Background()
		if op.Cancelled {
			cctx, cancel := context.WithCancel(ctx)
			cancel()
			ctx = cctx
		}
		if op.MidCancel {
			cctx, cancel := context.WithCancel(ctx)
			ctx = cctx
			a.OnSetWriteDeadline = cancel
		}
		err := ch.WriteFcall(ctx, fc)
		a.OnSetWriteDeadline = nil
		tap := a.Written()
		if !bytes.Equal(handed, payloadCopy) {
			return harn.Fail("op %d (%s, msize %d): WriteFcall modified the caller's data buffer", i, name, msize)
		}
		// universal invariant
		if len(tap) != 0 {
			if len(tap) < 4 {
				return harn.Fail("op %d (%s, msize %d): %d stray bytes written", i, name, msize, len(tap))
			}
			pfx := int(binary.LittleEndian.Uint32(tap))
			if pfx != len(tap) {
				return harn.Fail("op %d (%s, msize %d): length prefix %d but %d bytes were written", i, name, msize, pfx, len(tap))
			}
			if len(tap) > msize {
				return harn.Fail("op %d (%s, msize %d): frame of %d bytes exceeds msize", i, name, msize, len(tap))
			}
		}
		near := F-msize <= 40 && msize-F <= 40
		cls := ""
		if op.MidCancel && err != nil {
			// the cancellation won: then nothing at all may have been emitted — now or with the next write
			if len(tap) != 0 {
				return harn.Fail("op %d (%s): the call failed with %v (context cancelled inside the call) but %d bytes were written", i, name, err, len(tap))
			}
			res.Classes = append(res.Classes, "cancelled_inside_call")
			res.NonTrivial = true
			continue
		}
		switch {
		case op.Cancelled:
			if err == nil || len(tap) != 0 {
				return harn.Fail("op %d (%s): cancelled context: err=%v, %d bytes written", i, name, err, len(tap))
			}
			cls = "cancelled"
		case m.Kind == refwire.Twrite:
			want := full
			cls = "twrite_fit"
			if F > msize {
				cut := F - msize
				if cut > len(payload) {
					return harn.Fail("internal: msize %d cannot hold a Twrite header", msize)
				}
				m2 := m
				m2.Blob = harn.Blob{}
				m2.Data = harn.B(payload[:len(payload)-cut])
				if len(m2.Data) == 0 {
					m2.Data = nil
				}
				want = refwire.Frame(&m2)
				if len(m2.Data) == 0 {
					// Frame() of empty Data via Payload(): still correct (count 0)
				}
				cls = "twrite_truncated"
				near = true
			} else if F == msize {
				cls = "twrite_exact"
			}
			if err != nil {
				return harn.Fail("op %d (Twrite, frame %d, msize %d): error %v", i, F, msize, err)
			}
			if !bytes.Equal(tap, want) {
				return harn.Fail("op %d (Twrite, frame %d, msize %d): wrote %d bytes, want %d (first difference at %d)", i, F, msize, len(tap), len(want), firstDiff(tap, want))
			}
			if F > msize && len(tap) != msize {
				return harn.Fail("op %d: truncated Twrite frame is %d bytes, want exactly msize %d", i, len(tap), msize)
			}
		case m.Kind == refwire.Tread:
			m2 := m
			cls = "tread_fit"
			if int64(m.Count) > int64(msize-11) {
				m2.Count = uint32(msize - 11)
				cls = "tread_clamped"
				near = true
			}
			want := refwire.Frame(&m2)
			if err != nil {
				return harn.Fail("op %d (Tread count %d, msize %d): error %v", i, m.Count, msize, err)
			}
			if !bytes.Equal(tap, want) {
				var got uint32
				if len(tap) == 23 {
					got = binary.LittleEndian.Uint32(tap[19:])
				}
				return harn.Fail("op %d (Tread count %d, msize %d): wrote count %d (%d bytes), want count %d", i, m.Count, msize, got, len(tap), m2.Count)
			}
		default:
			if F <= msize {
				cls = "other_fit"
				if F == msize {
					cls = "other_exact"
				}
				if err != nil {
					return harn.Fail("op %d (%s, frame %d, msize %d): error %v", i, name, F, msize, err)
				}
				if !bytes.Equal(tap, full) {
					return harn.Fail("op %d (%s, frame %d, msize %d): wrote %d bytes, not the unmodified frame (first difference at %d)", i, name, F, msize, len(tap), firstDiff(tap, full))
				}
			} else {
				cls = "other_refused"
				if F == msize+1 {
					cls = "other_over_by_1"
				}
				near = true
				if len(tap) != 0 {
					return harn.Fail("op %d (%s, frame %d, msize %d): %d bytes written for a message that does not fit", i, name, F, msize, len(tap))
				}
				if err == nil {
					return harn.Fail("op %d (%s, frame %d, msize %d): no error for a message that does not fit", i, name, F, msize)
				}
				if of := p9p.Overflow(err); of != F-msize {
					return harn.Fail("op %d (%s, frame %d, msize %d): Overflow(err) = %d, want %d (err: %v)", i, name, F, msize, of, F-msize, err)
				}
			}
		}
		res.Classes = append(res.Classes, cls, "w_"+name)
		if near {
			res.NonTrivial = true
		}
	}
	return res
}

func firstDiff(a, b []byte) int {
	n := len(a)
	if len(b) < n {
		n = len(b)
	}
	for i := 0; i < n; i++ {
		if a[i] != b[i] {
			return i
		}
	}
	if len(a) != len(b) {
		return n
	}
	return -1
}

var _ = fmt.Sprintf

// ---- a write in progress while a read on the same channel runs out of time (C02: "either
// emits exactly one complete frame ... or emits nothing at all")

type RWCase struct {
	Msg      refwire.Msg
	First    int // bytes the peer takes at once (1..8), then it stalls
	Deadline int // ms: deadline of the concurrent ReadFcall
	Gap      int // ms after that deadline at which the peer takes the rest
}

func GenRWCase(t *rapid.T) RWCase {
	m := genWMsg(t)
	gen.Shrink(&m, 40)
	return RWCase{Msg: m, First: rapid.IntRange(1, 8).Draw(t, "first"), Deadline: rapid.IntRange(15, 40).Draw(t, "deadline"), Gap: rapid.IntRange(10, 30).Draw(t, "gap")}
}

func RunRW(c RWCase) harn.Result {
	a, b := memconn.NewPair(memconn.Options{Rendezvous: true}) // like net.Pipe: a write returns when the peer has taken the bytes, and honours deadlines
	defer a.Close()
	defer b.Close()
	ch := p9p.NewChannel(a, 65536)
	m := c.Msg
	want := m
	if want.Kind == refwire.Tread && int64(want.Count) > 65536-11 {
		want.Count = 65536 - 11 // a read request's count is lowered so that its reply fits
	}
	full := refwire.Frame(&want)
	first := c.First
	if first >= len(full) {
		first = len(full) - 1
	}
	start := time.Now()
	got := make(chan []byte, 1)
	go func() {
		buf := make([]byte, 0, len(full)+16)
		tmp := make([]byte, first)
		n, _ := io.ReadFull(b, tmp)
		buf = append(buf, tmp[:n]...)
		time.Sleep(time.Until(start.Add(time.Duration(c.Deadline+c.Gap) * time.Millisecond)))
		b.SetReadDeadline(time.Now().Add(300 * time.Millisecond))
		rest := make([]byte, len(full)+16)
		for {
			n, err := b.Read(rest)
			buf = append(buf, rest[:n]...)
			if err != nil || len(buf) >= len(full) {
				break
			}
		}
		got <- buf
	}()
	werr := make(chan error, 1)
	go func() { werr <- ch.WriteFcall(context.Background(), gen.ToFcall(&m, 0)) }()
	time.Sleep(2 * time.Millisecond)
	rctx, cancel := context.WithDeadline(context.Background(), start.Add(time.Duration(c.Deadline)*time.Millisecond))
	defer cancel()
	rerr := make(chan error, 1)
	go func() { rerr <- ch.ReadFcall(rctx, new(p9p.Fcall)) }()
	var err error
	select {
	case err = <-werr:
	case <-time.After(10 * time.Second):
		return harn.Fail("WriteFcall(%s) did not return within 10s although the peer took the whole frame", refwire.KindName[m.Kind])
	}
	emitted := <-got
	select {
	case <-rerr: // what the read returns is not C02's business
	case <-time.After(50 * time.Millisecond):
	}
	switch {
	case len(emitted) == 0:
		if err == nil {
			return harn.Fail("WriteFcall(%s) returned success but nothing was emitted", refwire.KindName[m.Kind])
		}
		return harn.Fail("WriteFcall(%s) with a live context emitted nothing and failed with %v while a ReadFcall on the same channel ran into its %d ms deadline", refwire.KindName[m.Kind], err, c.Deadline)
	case !bytes.Equal(emitted, full):
		return harn.Fail("WriteFcall(%s, frame of %d bytes) emitted %d bytes - not one complete frame - and returned %v; a ReadFcall on the same channel ran into its %d ms deadline while the peer had taken %d bytes",
			refwire.KindName[m.Kind], len(full), len(emitted), err, c.Deadline, first)
	case err != nil:
		return harn.Fail("WriteFcall(%s) emitted the complete frame but returned %v", refwire.KindName[m.Kind], err)
	}
	return harn.Result{NonTrivial: true, Classes: []string{"write_across_read_deadline"}}
}
