package sessconc

// Linearizability oracle for C14: "the results are those of some sequential
// order of the operations consistent with real time".
//
// The sequential specification is a pure (immutable-value) re-statement of the
// C08 reference model together with the mock file system's tree: a fid table
// (fid -> node, open state) and the tree (names, data, versions, modes).  The
// recorded history (invocation and return stamps from one shared counter,
// every result the session returned) is handed to porcupine, which searches
// for a sequential order that respects real time and in which every recorded
// result is one the specification allows.
//
// Where the property text leaves an outcome open (see DESIGN §4, C08:
// operations on a fid that was walked in place while open, directory reads,
// walk/create on an open fid) the specification accepts every outcome; where
// such an operation may have changed file data in a way the text does not
// determine, the state becomes "tainted" and everything after it is accepted
// (counted in the evidence as lin_tainted).

import (
	"fmt"
	"hash/fnv"
	"sort"
	"strings"
	"time"

	"github.com/anishathalye/porcupine"
	p9p "github.com/frobnitzem/go-p9p"

	"verifharness/internal/mockfs"
	"verifharness/sessfs"
)

// lobs is what the caller of one session operation observed.
type lobs struct {
	Err  string // "" = success
	Dup  bool   // the error was the duplicate-fid error
	Qid  p9p.Qid
	Qids []p9p.Qid
	N    int
	Data string
	Dir  p9p.Dir
}

func (o lobs) String() string {
	if o.Err != "" {
		return "error " + fmt.Sprintf("%q", o.Err)
	}
	return "ok"
}

type lnode struct {
	ID      uint64
	Name    string
	Dir     bool
	Parent  uint64 // 0: none (the root)
	Kids    map[string]uint64
	Data    string
	Removed bool
	Version uint32
	Mode    uint32
	QExtra  p9p.QType
}

func (n *lnode) qid() p9p.Qid {
	q := p9p.Qid{Path: n.ID, Version: n.Version, Type: n.QExtra}
	if n.Dir {
		q.Type |= p9p.QTDIR
	}
	return q
}

type lfid struct {
	Node uint64
	Open bool
	Unk  bool // open state undetermined by the property text
	Mode uint8
}

type lstate struct {
	nodes   map[uint64]*lnode
	fids    map[uint32]lfid
	tainted bool
	sig     string
}

func (s *lstate) clone() *lstate {
	c := &lstate{nodes: make(map[uint64]*lnode, len(s.nodes)+1), fids: make(map[uint32]lfid, len(s.fids)+1), tainted: s.tainted}
	for id, n := range s.nodes {
		m := *n
		if n.Kids != nil {
			m.Kids = make(map[string]uint64, len(n.Kids)+1)
			for k, v := range n.Kids {
				m.Kids[k] = v
			}
		}
		c.nodes[id] = &m
	}
	for f, v := range s.fids {
		c.fids[f] = v
	}
	return c
}

func (s *lstate) signature() string {
	if s.sig != "" {
		return s.sig
	}
	if s.tainted {
		s.sig = "TAINTED"
		return s.sig
	}
	var b strings.Builder
	var fs []int
	for f := range s.fids {
		fs = append(fs, int(f))
	}
	sort.Ints(fs)
	for _, f := range fs {
		v := s.fids[uint32(f)]
		fmt.Fprintf(&b, "f%d=%d,%v,%v,%d;", f, v.Node, v.Open, v.Unk, v.Mode)
	}
	var ids []int
	for id := range s.nodes {
		ids = append(ids, int(id))
	}
	sort.Ints(ids)
	for _, id := range ids {
		n := s.nodes[uint64(id)]
		fmt.Fprintf(&b, "n%d=%q,%v,%d,%q,%v,%d,%o,%x[", id, n.Name, n.Dir, n.Parent, n.Data, n.Removed, n.Version, n.Mode, n.QExtra)
		var ks []string
		for k := range n.Kids {
			ks = append(ks, k)
		}
		sort.Strings(ks)
		for _, k := range ks {
			fmt.Fprintf(&b, "%q:%d,", k, n.Kids[k])
		}
		b.WriteString("];")
	}
	s.sig = b.String()
	return s.sig
}

func (s *lstate) describe() string {
	var fs []int
	for f := range s.fids {
		fs = append(fs, int(f))
	}
	sort.Ints(fs)
	var parts []string
	for _, f := range fs {
		v := s.fids[uint32(f)]
		st := ""
		if v.Open {
			st = fmt.Sprintf(" open(%#x)", v.Mode)
		}
		if v.Unk {
			st = " open?"
		}
		parts = append(parts, fmt.Sprintf("%d->%s%s", f, s.pathOf(v.Node), st))
	}
	return "{" + strings.Join(parts, ", ") + "}"
}

func (s *lstate) pathOf(id uint64) string {
	n := s.nodes[id]
	if n == nil {
		return "?"
	}
	if n.Parent == 0 {
		return "/"
	}
	p := s.pathOf(n.Parent)
	if p != "/" {
		p += "/"
	}
	p += n.Name
	if n.Removed {
		p += "(removed)"
	}
	return p
}

// initial state: the standard tree of mockfs.Populate (ids are assigned in creation order from 2)
func linInit() *lstate {
	s := &lstate{nodes: map[uint64]*lnode{}, fids: map[uint32]lfid{}}
	add := func(id, parent uint64, name string, dir bool, data string) {
		n := &lnode{ID: id, Name: name, Dir: dir, Parent: parent, Data: data, Mode: 0644}
		if dir {
			n.Kids = map[string]uint64{}
			n.Mode = 0755
		}
		s.nodes[id] = n
		if parent != 0 {
			s.nodes[parent].Kids[name] = id
		}
	}
	add(1, 0, "/", true, "")
	add(2, 1, "a", true, "")
	add(3, 2, "x", false, "contents of x")
	add(4, 2, "d", true, "")
	add(5, 4, "y", false, "yy")
	add(6, 1, "f", false, "file f data")
	add(7, 1, "e", true, "")
	s.nodes[2].QExtra = p9p.QTTMP
	s.nodes[4].QExtra = p9p.QTAPPEND | p9p.QTEXCL
	return s
}

func (s *lstate) resolve(from uint64, names []string) []*lnode {
	var out []*lnode
	cur := s.nodes[from]
	for _, name := range names {
		var next *lnode
		if name == ".." {
			if cur.Parent != 0 {
				next = s.nodes[cur.Parent]
			}
		} else if cur.Dir && !cur.Removed {
			if id, ok := cur.Kids[name]; ok {
				next = s.nodes[id]
			}
		}
		if next == nil {
			break
		}
		out = append(out, next)
		cur = next
	}
	return out
}

func qidsEq(a, b []p9p.Qid) bool {
	if len(a) != len(b) {
		return false
	}
	for i := range a {
		if a[i] != b[i] {
			return false
		}
	}
	return true
}

func lreadAllowed(mode uint8) bool  { m := mode & 3; return m == 0 || m == 2 || m == 3 }
func lwriteAllowed(mode uint8) bool { m := mode & 3; return m == 1 || m == 2 }

// linStep: may the operation, applied in state s, have produced the observed
// result?  If so, the state afterwards.  Pure: s is never modified.
func linStep(s *lstate, op sessfs.Op, o lobs) (bool, *lstate) {
	if s.tainted {
		return true, s
	}
	failed := o.Err != ""
	src, bound := s.fids[op.Fid]
	if op.Fid == sessfs.NOFID {
		bound = false
	}
	mustFail := func(dup bool) (bool, *lstate) {
		if !failed {
			return false, nil
		}
		if dup && !o.Dup {
			return false, nil
		}
		return true, s
	}
	faultOn := func(call string) bool { return op.Fault == call }

	switch op.Kind {
	case "attach":
		switch {
		case op.Afid != sessfs.NOFID, op.Fid == sessfs.NOFID:
			return mustFail(false)
		case bound:
			return mustFail(true)
		case faultOn("attach"):
			return mustFail(false)
		}
		if failed || o.Qid != s.nodes[1].qid() {
			return false, nil
		}
		n := s.clone()
		n.fids[op.Fid] = lfid{Node: 1}
		return true, n

	case "walk":
		_, nbound := s.fids[op.Newfid]
		switch {
		case !sessfs.ValidNames(op.Names), !bound:
			return mustFail(false)
		case op.Newfid != op.Fid && op.Newfid == sessfs.NOFID:
			return mustFail(false)
		case op.Newfid != op.Fid && nbound:
			return mustFail(true)
		case len(op.Names) == 0 && op.Newfid == op.Fid:
			return !failed, s
		case len(op.Names) == 0:
			if faultOn("walk") {
				return mustFail(false)
			}
			if failed {
				return false, nil
			}
			n := s.clone()
			n.fids[op.Newfid] = lfid{Node: src.Node}
			return true, n
		case !s.nodes[src.Node].Dir:
			return mustFail(false)
		}
		either := src.Open || src.Unk // 9P forbids walking an open fid; the property text is silent
		if faultOn("walk") {
			return mustFail(false)
		}
		if failed && either {
			return true, s
		}
		found := s.resolve(src.Node, op.Names)
		if op.Partial > 0 && op.Partial < len(found) {
			found = found[:op.Partial]
		}
		if len(found) == 0 {
			return mustFail(false)
		}
		if failed {
			return false, nil
		}
		want := make([]p9p.Qid, len(found))
		for i, f := range found {
			want[i] = f.qid()
		}
		if !qidsEq(want, o.Qids) {
			return false, nil
		}
		if len(found) < len(op.Names) {
			return true, s
		}
		n := s.clone()
		nf := lfid{Node: found[len(found)-1].ID}
		if op.Newfid == op.Fid {
			nf.Unk = src.Open || src.Unk
		}
		n.fids[op.Newfid] = nf
		return true, n

	case "open":
		switch {
		case !bound:
			return mustFail(false)
		case src.Unk:
			if failed {
				return true, s
			}
			n := s.clone()
			n.fids[op.Fid] = lfid{Node: src.Node, Open: true, Mode: op.Mode}
			if p9p.Flag(op.Mode)&p9p.OTRUNC != 0 && !s.nodes[src.Node].Dir {
				n.tainted = true // which file, if any, was truncated is not determined
			}
			return true, n
		case src.Open:
			return mustFail(false)
		}
		node := s.nodes[src.Node]
		primary := "open"
		if node.Dir {
			primary = "opendir"
		}
		if faultOn(primary) {
			return mustFail(false)
		}
		if failed || o.Qid != node.qid() {
			return false, nil
		}
		n := s.clone()
		n.fids[op.Fid] = lfid{Node: src.Node, Open: true, Mode: op.Mode}
		if p9p.Flag(op.Mode)&p9p.OTRUNC != 0 && !node.Dir {
			n.nodes[src.Node].Data = ""
		}
		return true, n

	case "create":
		switch {
		case op.Name == "." || op.Name == "..", !bound:
			return mustFail(false)
		case !s.nodes[src.Node].Dir:
			return mustFail(false)
		}
		parent := s.nodes[src.Node]
		either := src.Open || src.Unk
		_, dup := parent.Kids[op.Name]
		badName := op.Name == "" || strings.ContainsAny(op.Name, "/\\")
		switch {
		case faultOn("create"):
			return mustFail(false)
		case dup || badName || parent.Removed:
			return mustFail(false)
		case op.Perm&p9p.DMDIR != 0 && faultOn("opendir"):
			// the directory exists but the fid's fate is left open (DESIGN §4, C08): not modelled
			if !failed {
				return false, nil
			}
			n := s.clone()
			n.tainted = true
			return true, n
		}
		if failed {
			if either {
				return true, s
			}
			return false, nil
		}
		id := o.Qid.Path
		isDir := op.Perm&p9p.DMDIR != 0
		if _, exists := s.nodes[id]; exists || id == 0 {
			return false, nil // the qid of a new file names a file that already exists
		}
		wantType := mockfs.QExtraOf(op.Perm)
		if isDir {
			wantType |= p9p.QTDIR
		}
		if o.Qid.Type != wantType || o.Qid.Version != 0 {
			return false, nil
		}
		n := s.clone()
		nn := &lnode{ID: id, Name: op.Name, Dir: isDir, Parent: parent.ID, Mode: op.Perm & 0777, QExtra: mockfs.QExtraOf(op.Perm)}
		if isDir {
			nn.Kids = map[string]uint64{}
		}
		n.nodes[id] = nn
		n.nodes[parent.ID].Kids[op.Name] = id
		n.fids[op.Fid] = lfid{Node: id, Open: true, Mode: op.Mode}
		return true, n

	case "read", "write":
		isRead := op.Kind == "read"
		switch {
		case !bound:
			return mustFail(false)
		case src.Unk:
			if failed || isRead {
				return true, s
			}
			n := s.clone()
			n.tainted = true // a write through an undetermined open file
			return true, n
		case !src.Open:
			return mustFail(false)
		case isRead && !lreadAllowed(src.Mode), !isRead && !lwriteAllowed(src.Mode):
			return mustFail(false)
		}
		node := s.nodes[src.Node]
		if node.Dir {
			if !isRead {
				return mustFail(false)
			}
			return true, s // directory reads are C17's
		}
		if faultOn(op.Kind) {
			return mustFail(false)
		}
		if op.Offset < 0 || op.Offset > int64(len(node.Data)) {
			return mustFail(false)
		}
		if failed {
			return false, nil
		}
		if isRead {
			end := op.Offset + int64(op.Count)
			if end > int64(len(node.Data)) {
				end = int64(len(node.Data))
			}
			return o.Data == node.Data[op.Offset:end], s
		}
		if o.N != len(op.Data) {
			return false, nil
		}
		n := s.clone()
		nd := n.nodes[src.Node]
		tail := ""
		if e := op.Offset + int64(len(op.Data)); e < int64(len(node.Data)) {
			tail = node.Data[e:]
		}
		nd.Data = node.Data[:op.Offset] + op.Data + tail
		nd.Version++
		return true, n

	case "stat", "wstat":
		if !bound || faultOn(op.Kind) {
			return mustFail(false)
		}
		if failed {
			return false, nil
		}
		node := s.nodes[src.Node]
		if op.Kind == "stat" {
			mode := node.Mode
			if node.Dir {
				mode |= p9p.DMDIR
			}
			ok := o.Dir.Qid == node.qid() && o.Dir.Name == node.Name && o.Dir.Length == uint64(len(node.Data)) && o.Dir.Mode == mode
			return ok, s
		}
		n := s.clone()
		if op.Perm != ^uint32(0) {
			n.nodes[src.Node].Mode = op.Perm & 0777
		}
		return true, n

	case "clunk", "remove":
		if !bound {
			return mustFail(false)
		}
		node := s.nodes[src.Node]
		n := s.clone()
		delete(n.fids, op.Fid)
		refuse := faultOn(op.Kind)
		if !refuse && op.Kind == "remove" {
			refuse = node.Parent == 0 || (node.Dir && len(node.Kids) > 0) || node.Removed
		}
		if refuse {
			return failed, n // the fid is unbound all the same
		}
		if failed {
			return false, nil
		}
		if op.Kind == "remove" {
			p := n.nodes[node.Parent]
			if p.Kids[node.Name] == node.ID {
				delete(p.Kids, node.Name)
			}
			n.nodes[node.ID].Removed = true
		}
		return true, n
	}
	return false, nil
}

type linInput struct {
	op  sessfs.Op
	idx string
}

var linModel = porcupine.Model{
	Init: func() interface{} { return linInit() },
	Step: func(state, input, output interface{}) (bool, interface{}) {
		ok, n := linStep(state.(*lstate), input.(linInput).op, output.(lobs))
		if !ok {
			return false, state
		}
		return true, n
	},
	Equal: func(a, b interface{}) bool { return a.(*lstate).signature() == b.(*lstate).signature() },
	Hash: func(a interface{}) uint64 {
		h := fnv.New64a()
		h.Write([]byte(a.(*lstate).signature()))
		return h.Sum64()
	},
}

type linOp struct {
	g, i      int // goroutine (0 = sequential prefix), index
	op        sessfs.Op
	obs       lobs
	call, ret int64
}

// checkLinearizable returns "" if some sequential order explains the history,
// "unknown" if the search budget ran out, otherwise a description.
func checkLinearizable(h []linOp, budget time.Duration) (verdict string, tainted bool) {
	ops := make([]porcupine.Operation, len(h))
	for k, e := range h {
		ops[k] = porcupine.Operation{ClientId: e.g, Input: linInput{op: e.op, idx: fmt.Sprintf("g%d#%d", e.g, e.i)}, Call: e.call, Output: e.obs, Return: e.ret}
	}
	res, info := porcupine.CheckOperationsVerbose(linModel, ops, budget)
	switch res {
	case porcupine.Ok:
		// did the explanation pass through a state the specification does not determine?
		if pl := info.PartialLinearizations(); len(pl) > 0 && len(pl[0]) > 0 {
			st := linInit()
			for _, k := range pl[0][0] {
				ok, n := linStep(st, h[k].op, h[k].obs)
				if !ok {
					break
				}
				st = n
			}
			return "", st.tainted
		}
		return "", false
	case porcupine.Unknown:
		return "unknown", false
	}
	// describe: the longest linearizable prefix porcupine found, then the full history
	var b strings.Builder
	b.WriteString("the recorded results are not those of any sequential order consistent with real time. History (goroutine#index [invoked,returned] operation -> result):")
	sorted := append([]linOp(nil), h...)
	sort.Slice(sorted, func(a, c int) bool { return sorted[a].call < sorted[c].call })
	for _, e := range sorted {
		if e.g == 0 {
			continue
		}
		fmt.Fprintf(&b, " | g%d#%d [%d,%d] %s -> %s", e.g, e.i, e.call, e.ret, e.op, describeObs(e.op, e.obs))
	}
	if pl := info.PartialLinearizations(); len(pl) > 0 && len(pl[0]) > 0 {
		best := pl[0][0]
		for _, cand := range pl[0] {
			if len(cand) > len(best) {
				best = cand
			}
		}
		// replay the best partial order to show the state at which the search got stuck
		st := linInit()
		var names []string
		for _, k := range best {
			ok, n := linStep(st, h[k].op, h[k].obs)
			if !ok {
				break
			}
			st = n
			if h[k].g != 0 {
				names = append(names, fmt.Sprintf("g%d#%d", h[k].g, h[k].i))
			}
		}
		fmt.Fprintf(&b, " || longest explainable order of the concurrent part: %s ; fid table after it: %s", strings.Join(names, " "), st.describe())
	}
	return b.String(), false
}

func describeObs(op sessfs.Op, o lobs) string {
	if o.Err != "" {
		return fmt.Sprintf("error %q", o.Err)
	}
	switch op.Kind {
	case "walk":
		var ps []string
		for _, q := range o.Qids {
			ps = append(ps, fmt.Sprint(q.Path))
		}
		return "ok qids[" + strings.Join(ps, ",") + "]"
	case "read":
		return fmt.Sprintf("ok %q", o.Data)
	case "write":
		return fmt.Sprintf("ok n=%d", o.N)
	case "stat":
		return fmt.Sprintf("ok name=%q len=%d ver=%d", o.Dir.Name, o.Dir.Length, o.Dir.Qid.Version)
	case "attach", "open", "create":
		return fmt.Sprintf("ok qid=%d", o.Qid.Path)
	}
	return "ok"
}
