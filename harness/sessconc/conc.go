// Package sessconc decides C14: operations issued concurrently on one server
// session are atomic per fid and never deadlock.  The harness owns the
// schedule at file-system-call granularity: every mock call parks at a gate
// (inside the critical section in which the session holds the fid's lock)
// and a generated schedule decides which parked call proceeds next.  Built
// with the race detector.
package sessconc

import (
	"context"
	"fmt"
	"runtime"
	"strings"
	"sync"
	"time"

	p9p "github.com/frobnitzem/go-p9p"
	"pgregory.net/rapid"

	"verifharness/internal/harn"
	"verifharness/internal/mockfs"
	"verifharness/sessfs"
)

type ConcCase struct {
	Prefix  []sessfs.Op   // executed sequentially first
	Threads [][]sessfs.Op // then one goroutine per list
	Sched   []int         // order in which parked file-system calls are released (index into the parked set, cycled)
	Free    bool          // no gates: goroutines run freely (raw contention)
}

type gidKey struct{}

func ownFid(g, j int) uint32 { return uint32(100 + 10*g + j) }

func GenConc(t *rapid.T) ConcCase {
	var c ConcCase
	pool := []uint32{0, 1, 2, 3}
	c.Prefix = append(c.Prefix, sessfs.Op{Kind: "attach", Fid: 0, Afid: sessfs.NOFID})
	c.Prefix = append(c.Prefix, sessfs.Op{Kind: "attach", Fid: 1, Afid: sessfs.NOFID})
	if rapid.IntRange(0, 3).Draw(t, "openprefix") > 0 {
		// an open file (read-write) and an open directory among the shared fids, so that
		// concurrent I/O on one fid (file data and directory reads) is common
		c.Prefix = append(c.Prefix,
			sessfs.Op{Kind: "walk", Fid: 0, Newfid: 2, Names: []string{"a", "x"}},
			sessfs.Op{Kind: "open", Fid: 2, Mode: 2},
			sessfs.Op{Kind: "walk", Fid: 0, Newfid: 3, Names: []string{"a"}},
			sessfs.Op{Kind: "open", Fid: 3, Mode: 0},
		)
	}
	np := rapid.IntRange(0, 6).Draw(t, "nprefix")
	for i := 0; i < np; i++ {
		op := sessfs.GenOp(t, 0)
		op.Fid = rapid.SampledFrom(pool).Draw(t, "pfid")
		if op.Kind == "walk" || op.Kind == "attach" {
			op.Newfid = rapid.SampledFrom(pool).Draw(t, "pnewfid")
		}
		if op.Kind == "attach" {
			op.Fid = op.Newfid
			op.Afid = sessfs.NOFID
		}
		c.Prefix = append(c.Prefix, op)
	}
	g := rapid.IntRange(2, 5).Draw(t, "threads")
	for gi := 0; gi < g; gi++ {
		n := rapid.IntRange(3, 8).Draw(t, "nops")
		var ops []sessfs.Op
		own := 0
		var mine []uint32
		for j := 0; j < n; j++ {
			op := sessfs.GenOp(t, 2)
			// shared fids on purpose; sometimes a fid this goroutine allocated itself
			switch {
			case len(mine) > 0 && rapid.IntRange(0, 3).Draw(t, "useown") == 0:
				op.Fid = rapid.SampledFrom(mine).Draw(t, "ownfid")
			case rapid.IntRange(0, 5).Draw(t, "useforeign") == 0:
				// *use* (never allocate) a fid that another goroutine may be binding right now
				op.Fid = ownFid(rapid.IntRange(0, g-1).Draw(t, "fg"), rapid.IntRange(0, 2).Draw(t, "fj"))
			default:
				op.Fid = rapid.SampledFrom(pool).Draw(t, "sharedfid")
			}
			switch op.Kind {
			case "attach":
				// new fids are allocated disjointly per goroutine (the property's proviso)
				op.Fid = ownFid(gi, own)
				op.Afid = sessfs.NOFID
				if rapid.IntRange(0, 4).Draw(t, "afidp") == 0 {
					op.Afid = rapid.SampledFrom(pool).Draw(t, "afid")
				}
				mine = append(mine, op.Fid)
				own++
			case "walk":
				if rapid.IntRange(0, 3).Draw(t, "inplace") == 0 {
					op.Newfid = op.Fid
				} else {
					op.Newfid = ownFid(gi, own)
					mine = append(mine, op.Newfid)
					own++
				}
			}
			if own > 9 {
				own = 9
			}
			// (until session 3 a create whose new directory cannot be opened was turned into a plain
			// failing create here; it is kept now: the fid is unbound by it, with requests queued on it)
			if (op.Kind == "stat" || op.Kind == "wstat") && rapid.IntRange(0, 1).Draw(t, "toread") == 0 {
				op = sessfs.Op{Kind: "read", Fid: op.Fid, Count: 64, Offset: 0, Fault: op.Fault}
				if op.Fault != "" {
					op.Fault = "read"
				}
			}
			if op.Fid >= 100 && !isMine(mine, op.Fid) {
				// a foreign fid is only *used*: never unbound or rebound by somebody else
				switch op.Kind {
				case "stat", "wstat", "read", "write", "open":
				default:
					op = sessfs.Op{Kind: "stat", Fid: op.Fid}
				}
			}
			ops = append(ops, op)
		}
		c.Threads = append(c.Threads, ops)
	}
	// (session 3) crossing walks: one goroutine walks a -> b while another walks b -> a, both
	// shared fids that are normally bound already (duplicate fid), with a third request on a
	// in flight.  Each walk names a different new fid, so this is inside the property's proviso;
	// an implementation that waits for the target fid while holding the source deadlocks here.
	if rapid.IntRange(0, 5).Draw(t, "crossing") == 0 {
		a := rapid.SampledFrom(pool).Draw(t, "crossa")
		b := pool[(int(a)+1+rapid.IntRange(0, 2).Draw(t, "crossb"))%4]
		ins := func(gi int, op sessfs.Op) {
			at := rapid.IntRange(0, len(c.Threads[gi])).Draw(t, "crossat")
			ops := append([]sessfs.Op(nil), c.Threads[gi][:at]...)
			ops = append(ops, op)
			c.Threads[gi] = append(ops, c.Threads[gi][at:]...)
		}
		var names []string
		if rapid.Bool().Draw(t, "crossnames") {
			names = []string{"a"}
		}
		ins(0, sessfs.Op{Kind: "walk", Fid: a, Newfid: b, Names: names})
		ins(1, sessfs.Op{Kind: "walk", Fid: b, Newfid: a, Names: names})
		ins(len(c.Threads)-1, sessfs.Op{Kind: "stat", Fid: a})
	}
	// (session 3) a create of a directory that then cannot be opened - the pinned code unbinds
	// the fid and releases its entry - with other requests on the same fid in flight or queued:
	// none of them may reach the released entry
	if rapid.IntRange(0, 5).Draw(t, "faildircreate") == 0 {
		a := rapid.SampledFrom([]uint32{0, 1}).Draw(t, "fdcfid")
		ins := func(gi int, op sessfs.Op) {
			at := rapid.IntRange(0, len(c.Threads[gi])).Draw(t, "fdcat")
			ops := append([]sessfs.Op(nil), c.Threads[gi][:at]...)
			ops = append(ops, op)
			c.Threads[gi] = append(ops, c.Threads[gi][at:]...)
		}
		ins(0, sessfs.Op{Kind: "create", Fid: a, Name: "qd", Perm: p9p.DMDIR | 0755, Mode: 0, Fault: "opendir"})
		for gi := 1; gi < len(c.Threads); gi++ {
			ins(gi, sessfs.Op{Kind: rapid.SampledFrom([]string{"stat", "stat", "wstat", "walk"}).Draw(t, "fdcop"), Fid: a, Newfid: ownFid(gi, 9), Names: []string{"a"}})
		}
	}
	c.Sched = rapid.SliceOfN(rapid.IntRange(0, 7), 1, 40).Draw(t, "sched")
	c.Free = rapid.IntRange(0, 3).Draw(t, "free") == 0
	return c
}

func isMine(mine []uint32, f uint32) bool {
	for _, m := range mine {
		if m == f {
			return true
		}
	}
	return false
}

type event struct {
	g    int
	kind string // parked | done
	rel  chan struct{}
}

type opResult struct {
	op    sessfs.Op
	err   error
	nqids int
	obs   lobs
}

func doOp(s p9p.Session, ctx context.Context, op sessfs.Op) opResult {
	var err error
	r := opResult{op: op}
	defer func() { r.err = err }()
	return doOp1(s, ctx, op, &r, &err)
}

func doOp1(s p9p.Session, ctx context.Context, op sessfs.Op, r *opResult, perr *error) opResult {
	var err error
	defer func() { *perr = err; r.err = err }()
	o := &r.obs
	switch op.Kind {
	case "attach":
		o.Qid, err = s.Attach(ctx, p9p.Fid(op.Fid), p9p.Fid(op.Afid), "user", "")
	case "walk":
		var q []p9p.Qid
		q, err = s.Walk(ctx, p9p.Fid(op.Fid), p9p.Fid(op.Newfid), op.Names...)
		r.nqids = len(q)
		o.Qids = q
	case "open":
		o.Qid, _, err = s.Open(ctx, p9p.Fid(op.Fid), p9p.Flag(op.Mode))
	case "create":
		o.Qid, _, err = s.Create(ctx, p9p.Fid(op.Fid), op.Name, op.Perm, p9p.Flag(op.Mode))
	case "read":
		buf := make([]byte, op.Count)
		var n int
		n, err = s.Read(ctx, p9p.Fid(op.Fid), buf, op.Offset)
		if n >= 0 && n <= len(buf) {
			o.Data = string(buf[:n])
		}
		o.N = n
	case "write":
		o.N, err = s.Write(ctx, p9p.Fid(op.Fid), []byte(op.Data), op.Offset)
	case "stat":
		o.Dir, err = s.Stat(ctx, p9p.Fid(op.Fid))
	case "wstat":
		d := p9p.Dir{Mode: op.Perm, Length: ^uint64(0)}
		if op.Perm == ^uint32(0) {
			d = sessfs.SyncDir()
		}
		err = s.WStat(ctx, p9p.Fid(op.Fid), d)
	case "clunk":
		err = s.Clunk(ctx, p9p.Fid(op.Fid))
	case "remove":
		err = s.Remove(ctx, p9p.Fid(op.Fid))
	}
	if err != nil {
		o.Err = err.Error()
		if o.Err == "" {
			o.Err = "error"
		}
		o.Dup = err == p9p.ErrDupfid
		if m, ok := err.(p9p.MessageRerror); ok && strings.Contains(m.Ename, "duplicate fid") {
			o.Dup = true
		}
	}
	r.err = err
	return *r
}

type curOp struct {
	fault     string
	partial   int
	faultUsed bool
}

const watchdog = 10 * time.Second

func RunConc(c ConcCase) harn.Result {
	fs := mockfs.New()
	fs.Populate()
	sess := p9p.SFileSys(fs)
	res := harn.Result{}

	var mu sync.Mutex
	cur := map[int]*curOp{} // per goroutine: fault plan of the op in flight
	var hist []linOp        // invocation/return history for the linearizability oracle
	events := make(chan event, 64)
	gated := false

	fs.Hook = func(call *mockfs.Call) *mockfs.Fault {
		g, _ := call.Ctx.Value(gidKey{}).(int)
		var f *mockfs.Fault
		mu.Lock()
		co := cur[g]
		if co != nil {
			if co.fault != "" && !co.faultUsed && call.Op == co.fault {
				co.faultUsed = true
				f = &mockfs.Fault{Err: mockfs.ErrInjected}
			} else if call.Op == "walk" && co.partial > 0 {
				f = &mockfs.Fault{Partial: co.partial}
			}
		}
		isGated := gated && g > 0
		mu.Unlock()
		if isGated {
			rel := make(chan struct{})
			events <- event{g: g, kind: "parked", rel: rel}
			<-rel
		} else if g > 0 {
			runtime.Gosched()
		}
		return f
	}

	// prefix, sequential, ungated (goroutine id 0)
	ctx0 := context.WithValue(context.Background(), gidKey{}, 0)
	for _, op := range c.Prefix {
		mu.Lock()
		cur[0] = &curOp{fault: op.Fault, partial: op.Partial}
		mu.Unlock()
		done := make(chan opResult, 1)
		go func() { done <- doOp(sess, ctx0, op) }()
		select {
		case r := <-done:
			hist = append(hist, linOp{g: 0, i: len(hist), op: op, obs: r.obs, call: int64(2*len(hist) + 1), ret: int64(2*len(hist) + 2)})
		case <-time.After(watchdog):
			return harn.Fail("prefix operation %s did not return", op)
		}
	}
	mu.Lock()
	gated = !c.Free
	mu.Unlock()

	// concurrent phase
	var wg sync.WaitGroup
	type opspan struct {
		g, i       int
		start, end int64
	}
	clock := int64(2*len(hist) + 10)
	var spans []opspan
	var results []opResult
	// which fids are bound when the concurrent phase starts
	initial := map[uint32]bool{}
	if tab, ok := p9p.VerifFidTable(sess); ok {
		for _, te := range tab {
			if te.HasEnt {
				initial[uint32(te.Fid)] = true
			}
		}
	}
	for gi, ops := range c.Threads {
		g := gi + 1
		wg.Add(1)
		go func(g int, ops []sessfs.Op) {
			defer wg.Done()
			ctx := context.WithValue(context.Background(), gidKey{}, g)
			for i, op := range ops {
				mu.Lock()
				cur[g] = &curOp{fault: op.Fault, partial: op.Partial}
				clock++
				st := clock
				mu.Unlock()
				r := doOp(sess, ctx, op)
				mu.Lock()
				results = append(results, r)
				clock++
				spans = append(spans, opspan{g: g, i: i, start: st, end: clock})
				hist = append(hist, linOp{g: g, i: i, op: op, obs: r.obs, call: st, ret: clock})
				mu.Unlock()
			}
			events <- event{g: g, kind: "done"}
		}(g, ops)
	}
	alldone := make(chan struct{})
	go func() { wg.Wait(); close(alldone) }()

	running := len(c.Threads)
	parked := map[int]chan struct{}{}
	si := 0
	releases := 0
	var order []string
	deadline := time.Now().Add(watchdog)
	settle := 300 * time.Microsecond
	finished := false
	for !finished {
		// collect events until things settle
		timer := time.NewTimer(settle)
	collect:
		for {
			select {
			case ev := <-events:
				if ev.kind == "parked" {
					parked[ev.g] = ev.rel
				} else {
					running--
				}
				if !timer.Stop() {
					select {
					case <-timer.C:
					default:
					}
				}
				timer.Reset(settle)
			case <-timer.C:
				break collect
			}
		}
		if running == 0 {
			finished = true
			break
		}
		if len(parked) > 0 {
			// choose the next parked call to release, per the generated schedule
			var gs []int
			for g := range parked {
				gs = append(gs, g)
			}
			sortInts(gs)
			pick := gs[c.Sched[si%len(c.Sched)]%len(gs)]
			si++
			rel := parked[pick]
			delete(parked, pick)
			releases++
			order = append(order, fmt.Sprintf("g%d", pick))
			close(rel)
			deadline = time.Now().Add(watchdog)
			continue
		}
		if time.Now().After(deadline) {
			// nothing parked, nothing finishing: the remaining goroutines are blocked for good
			return harn.Fail("deadlock: %d goroutine(s) never returned although every file-system call has returned (gate release order: %s)", running, strings.Join(order, " "))
		}
		time.Sleep(time.Millisecond)
	}
	<-alldone

	corner := false
	for _, r := range results {
		if r.op.Kind == "create" && r.err != nil && r.op.Fault == "opendir" && r.op.Perm&p9p.DMDIR != 0 {
			corner = true
		}
	}
	// file system never saw overlapping calls on one entry / open file
	for _, v := range fs.Violations() {
		if strings.Contains(v, "overlapping") {
			return harn.Fail("%s (gate release order: %s)", v, strings.Join(order, " "))
		}
		// (session 3) in no sequential order of the operations does the file system see a call on
		// an entry the session has already released, or a second release (C13 holds for every
		// sequence); seeing one here means the operations did not take effect atomically per fid
		if corner && (strings.HasPrefix(v, "call clunk on handle") && strings.HasSuffix(v, "after its release by create") || strings.HasSuffix(v, "released twice (first by create, again by clunk)")) {
			// the one unspecified corner (DESIGN §4 C08/C13, "lenient"): a directory was created
			// but cannot be opened; the pinned code then clunks the fid's old entry although
			// the successful Create has consumed it.  Nothing else may touch that entry.
			continue
		}
		if strings.Contains(v, "after its release") || strings.Contains(v, "released twice") {
			return harn.Fail("%s - no sequential order of the operations does that (gate release order: %s)", v, strings.Join(order, " "))
		}
	}
	// no fid is left locked or half-bound once everything has returned
	tab, ok := p9p.VerifFidTable(sess)
	if !ok {
		return harn.Fail("HARNESS: no fid table")
	}
	for _, te := range tab {
		if te.Locked {
			return harn.Fail("fid %d is left locked after all operations returned", te.Fid)
		}
		if !te.HasEnt {
			return harn.Fail("fid %d is left reserved without an entry after all operations returned", te.Fid)
		}
	}
	// conservation of bindings per fid: a necessary condition for the results to be those of
	// *some* sequential order.  Every successful attach / complete walk onto F binds it once;
	// every clunk/remove that did not fail with "unknown fid" unbound it once; a fid is
	// bound at most once at a time.
	final := map[uint32]bool{}
	for _, te := range tab {
		final[uint32(te.Fid)] = true
	}
	binds, unbinds := map[uint32]int{}, map[uint32]int{}
	fateOpen := map[uint32]bool{}
	for _, r := range results {
		switch r.op.Kind {
		case "attach":
			if r.err == nil {
				binds[r.op.Fid]++
			}
		case "walk":
			if r.err == nil && r.op.Newfid != r.op.Fid && r.nqids == len(r.op.Names) {
				binds[r.op.Newfid]++
			}
		case "clunk", "remove":
			if r.err != p9p.ErrUnknownfid {
				unbinds[r.op.Fid]++
			}
		case "create":
			// a directory was created but could not be opened: what becomes of the fid is not
			// stated by the property (the pinned code unbinds it); no conservation claim for it
			if r.err != nil && r.op.Fault == "opendir" && r.op.Perm&p9p.DMDIR != 0 {
				fateOpen[r.op.Fid] = true
			}
		}
	}
	fidsSeen := map[uint32]bool{}
	for f := range initial {
		fidsSeen[f] = true
	}
	for f := range binds {
		fidsSeen[f] = true
	}
	for f := range unbinds {
		fidsSeen[f] = true
	}
	for f := range final {
		fidsSeen[f] = true
	}
	for f := range fidsSeen {
		if fateOpen[f] {
			continue
		}
		n := binds[f] - unbinds[f]
		if initial[f] {
			n++
		}
		want := 0
		if final[f] {
			want = 1
		}
		if n != want {
			return harn.Fail("fid %d: bound at the start=%v, %d operations reported binding it, %d clunk/remove operations reported unbinding it, bound at the end=%v — no sequential order of the operations explains these results (gate release order: %s)",
				f, initial[f], binds[f], unbinds[f], final[f], strings.Join(order, " "))
		}
	}
	// the results are those of some sequential order consistent with real time
	verdict, tainted := checkLinearizable(hist, 10*time.Second)
	switch verdict {
	case "":
		if tainted {
			res.Classes = append(res.Classes, "lin_tainted")
		} else {
			res.Classes = append(res.Classes, "lin_checked")
		}
	case "unknown":
		res.Classes = append(res.Classes, "lin_budget_exhausted")
	default:
		return harn.Fail("%s (gate release order: %s)", verdict, strings.Join(order, " "))
	}
	// non-trivial: two ops on the same fid overlapped in real time
	overlap := false
	for i := range spans {
		for j := i + 1; j < len(spans) && !overlap; j++ {
			a, b := spans[i], spans[j]
			if a.g == b.g || a.end < b.start || b.end < a.start {
				continue
			}
			if c.Threads[a.g-1][a.i].Fid == c.Threads[b.g-1][b.i].Fid {
				overlap = true
			}
		}
	}
	res.NonTrivial = overlap
	if overlap {
		res.Classes = append(res.Classes, "same_fid_overlap")
	}
	for gi := 0; gi+1 < len(c.Threads) && gi < 1; gi++ {
		for _, x := range c.Threads[0] {
			for _, y := range c.Threads[1] {
				if x.Kind == "walk" && y.Kind == "walk" && x.Fid == y.Newfid && y.Fid == x.Newfid && x.Fid != x.Newfid && x.Fid < 100 && x.Newfid < 100 {
					res.Classes = append(res.Classes, "crossing_walks")
				}
			}
		}
	}
	if c.Free {
		res.Classes = append(res.Classes, "free_running")
	} else {
		res.Classes = append(res.Classes, "gated")
	}
	return res
}

func sortInts(a []int) {
	for i := 1; i < len(a); i++ {
		for j := i; j > 0 && a[j] < a[j-1]; j-- {
			a[j], a[j-1] = a[j-1], a[j]
		}
	}
}
