package sessconc

import (
	"testing"

	"verifharness/internal/harn"
)

func TestMain(m *testing.M) { harn.Main(m) }

func init() { harn.Register("C14_Conc", RunConc) }

func TestReplay(t *testing.T)  { harn.Replay(t) }
func TestRegress(t *testing.T) { harn.Regress(t) }

func TestC14_Conc(t *testing.T) { harn.Check(t, "C14_Conc", GenConc, RunConc) }
