package wire

import (
	"testing"

	"verifharness/internal/harn"
	"verifharness/internal/refwire"
)

func TestMain(m *testing.M) { harn.Main(m) }

func init() {
	harn.Register("C01_Msg", RunMsg)
	harn.Register("C01_Dir", RunDir)
	harn.Register("C04_Untrusted", RunUntrusted)
	harn.Register("C01_Concurrent", RunConc)
	harn.Register("C01_Collide", RunCollide)
	harn.Register("C04_Concurrent", RunConc)
}

func TestReplay(t *testing.T)  { harn.Replay(t) }
func TestRegress(t *testing.T) { harn.Regress(t) }

// One sub-property per message kind: the 27 kinds are iterated, not drawn.
func TestC01_Msg(t *testing.T) {
	for _, k := range refwire.Kinds {
		k := k
		t.Run(refwire.KindName[k], func(t *testing.T) {
			harn.Check(t, "C01_Msg", GenMsgCase(k), RunMsg)
		})
	}
}

func TestC01_Dir(t *testing.T) { harn.Check(t, "C01_Dir", GenDirCase, RunDir) }

func TestC01_Concurrent(t *testing.T) { harn.Check(t, "C01_Concurrent", GenConcValid, RunConc) }
func TestC04_Concurrent(t *testing.T) { harn.Check(t, "C04_Concurrent", GenConcHostile, RunConc) }

// TestC01_Collisions decodes, one after the other, messages whose strings collide under common 32-bit hashes.
func TestC01_Collisions(t *testing.T) {
	n := 0
	for _, c := range findCollisions(400000, 3) {
		n++
		harn.RunOne(t, "C01_Collide", CollideCase{Hash: c.Hash, A: c.A, B: c.B}, RunCollide)
	}
	harn.Count("collision_pairs", n)
}

func FuzzDecodeVsRef(f *testing.F) {
	for _, s := range seedCorpus() {
		f.Add(s)
	}
	f.Fuzz(func(t *testing.T, in []byte) {
		if len(in) > 1<<16 {
			return
		}
		if err := DecodeDiff(in); err != nil {
			t.Fatalf("VERIF-FAIL test=FuzzDecodeVsRef: %v", err)
		}
	})
}

func TestC04_Untrusted(t *testing.T) { harn.Check(t, "C04_Untrusted", GenUntrusted, RunUntrusted) }

// TestC04_Corpus runs the oracle over the deterministic hostile-constant corpus.
func TestC04_Corpus(t *testing.T) {
	n := 0
	for _, in := range seedCorpus() {
		n++
		harn.RunOne(t, "C04_Untrusted", UntrustedCase{Raw: orNul(in)}, RunUntrusted)
	}
	for _, in := range statCorpus() {
		n++
		harn.RunOne(t, "C04_Untrusted", UntrustedCase{AsDir: true, Raw: orNul(in)}, RunUntrusted)
	}
	harn.Count("corpus_inputs", n)
}

func orNul(b []byte) harn.B {
	if len(b) == 0 {
		return harn.B{0}
	}
	return harn.B(b)
}

func FuzzUnmarshal(f *testing.F) {
	for _, s := range seedCorpus() {
		f.Add(s)
	}
	f.Fuzz(func(t *testing.T, in []byte) {
		if len(in) > 1<<16 {
			return
		}
		if _, err := CheckUntrusted(false, in); err != nil {
			t.Fatalf("VERIF-FAIL test=FuzzUnmarshal: %v", err)
		}
	})
}

func FuzzDecodeDir(f *testing.F) {
	for _, s := range statCorpus() {
		f.Add(s)
	}
	f.Fuzz(func(t *testing.T, in []byte) {
		if len(in) > 1<<17 {
			return
		}
		if _, err := CheckUntrusted(true, in); err != nil {
			t.Fatalf("VERIF-FAIL test=FuzzDecodeDir: %v", err)
		}
	})
}

// TestC04_CountSweep: every 16-bit element count x short tails, for Twalk and Rwalk.
func TestC04_CountSweep(t *testing.T) {
	tails := []int{0, 1, 3}
	if harn.Thorough() {
		tails = []int{0, 1, 2, 3, 5, 8, 13, 26}
	}
	n, bad, err := SweepCounts(tails)
	harn.Count("count_sweep_inputs", n)
	if err != nil && bad != nil {
		harn.RunOne(t, "C04_Untrusted", UntrustedCase{Raw: orNul(bad)}, RunUntrusted) // fails with a replayable case
	}
	if err != nil {
		t.Fatalf("HARNESS-ERROR count sweep: %v", err)
	}
}
