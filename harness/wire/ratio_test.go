package wire

import (
	"testing"

	"verifharness/internal/harn"
	"verifharness/internal/refwire"
)

// TestAllocRatio documents the in-memory expansion of the densest valid
// inputs, which is what the linear factor of the C04 bound has to cover.
func TestC04_AllocRatio(t *testing.T) {
	names := make([]harn.B, 65535)
	qids := make([]refwire.Q, 65535)
	for _, m := range []refwire.Msg{{Kind: refwire.Twalk, Wnames: names}, {Kind: refwire.Rwalk, Qids: qids}, {Kind: refwire.Rread, Blob: harn.Blob{N: 1 << 20}}} {
		in := refwire.Encode(&m)
		a, _, _ := measure(func() { decodeOnce(false, in) })
		t.Logf("%s: %d input bytes, %d allocated, ratio %.1f", refwire.KindName[m.Kind], len(in), a, float64(a)/float64(len(in)))
		if a > allocBound(len(in)) {
			t.Fatalf("HARNESS-ERROR bound too tight for valid input")
		}
	}
}
