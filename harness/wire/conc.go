package wire

// Concurrent use of the codec (C01, C04).  The library shares one Codec
// between the goroutines of a connection (a channel's reader and writer, the
// server's reader and writer) and between connections (NewCodec returns a
// stateless value), so "for every message / for every byte string" must hold
// whatever else is being encoded or decoded at the same time.
//
// Oracle: the byte layout of the independent reference encoder for Marshal /
// Size / Unmarshal of valid messages, and for hostile inputs the outcome the
// same input produced when it was decoded alone, before the goroutines started.

import (
	"bytes"
	"encoding/json"
	"fmt"
	"reflect"
	"runtime/debug"
	"sync"
	"testing/iotest"

	p9p "github.com/frobnitzem/go-p9p"
	"pgregory.net/rapid"

	"verifharness/internal/gen"
	"verifharness/internal/harn"
	"verifharness/internal/refwire"
)

type ConcCase struct {
	Msgs    []refwire.Msg
	Dirs    []refwire.D
	Hostile []UntrustedCase // decoded once each, alone, before the goroutines start, then again concurrently
	G       int
	Rounds  int
	Fresh   bool // odd goroutines use their own NewCodec() instead of the shared one
}

func genConc(hostile bool) func(t *rapid.T) ConcCase {
	return func(t *rapid.T) ConcCase {
		c := ConcCase{G: rapid.IntRange(2, 8).Draw(t, "g"), Rounds: rapid.IntRange(10, 60).Draw(t, "rounds"), Fresh: rapid.Bool().Draw(t, "fresh")}
		sz := gen.Sizes{}
		n := rapid.IntRange(2, 8).Draw(t, "nmsgs")
		for i := 0; i < n; i++ {
			m := gen.AnyMsg(sz).Draw(t, "msg")
			gen.Shrink(&m, 40)
			c.Msgs = append(c.Msgs, m)
		}
		// the same kind twice, with different field values: a decode target or buffer shared per kind shows
		c.Msgs = append(c.Msgs, c.Msgs[0])
		c.Msgs[len(c.Msgs)-1].Tag ^= 0x5a5a
		c.Msgs[len(c.Msgs)-1].Fid ^= 0x0f0f0f0f
		nd := rapid.IntRange(1, 4).Draw(t, "ndirs")
		for i := 0; i < nd; i++ {
			d := gen.Stat(sz).Draw(t, "stat")
			c.Dirs = append(c.Dirs, d)
		}
		if hostile {
			nh := rapid.IntRange(1, 4).Draw(t, "nhostile")
			for i := 0; i < nh; i++ {
				u := UntrustedCase{AsDir: rapid.Bool().Draw(t, "asdir")}
				if u.AsDir {
					u.Msg = refwire.Msg{Kind: refwire.Rstat, Stat: gen.Stat(sz).Draw(t, "hstat")}
				} else {
					u.Msg = gen.AnyMsg(sz).Draw(t, "hmsg")
					gen.Shrink(&u.Msg, 40)
				}
				u.Muts = rapid.SliceOfN(rapid.Custom(genMut), 1, 2).Draw(t, "muts")
				c.Hostile = append(c.Hostile, u)
			}
			// always one stat record whose size field claims more than the input holds
			c.Hostile = append(c.Hostile, UntrustedCase{AsDir: true, Msg: refwire.Msg{Kind: refwire.Rstat, Stat: c.Dirs[0]}, Muts: []Mut{{Op: "field", Field: 0, Rel: 1}}})
		}
		return c
	}
}

func GenConcValid(t *rapid.T) ConcCase   { return genConc(false)(t) }
func GenConcHostile(t *rapid.T) ConcCase { return genConc(true)(t) }

func outcomeOf(asDir bool, in []byte, cd p9p.Codec, oneByte bool) string {
	if asDir {
		var d p9p.Dir
		var rd interface{ Read([]byte) (int, error) } = bytes.NewReader(in)
		if oneByte {
			rd = iotest.OneByteReader(bytes.NewReader(in))
		}
		if err := p9p.DecodeDir(cd, rd, &d); err != nil {
			return "error"
		}
		b, _ := json.Marshal(gen.FromDir(d))
		return string(b)
	}
	var fc p9p.Fcall
	if err := cd.Unmarshal(in, &fc); err != nil {
		return "error"
	}
	m, err := gen.FromFcall(&fc)
	if err != nil {
		return "malformed: " + err.Error()
	}
	b, _ := json.Marshal(m)
	return string(b)
}

func RunConc(c ConcCase) harn.Result {
	res := harn.Result{NonTrivial: true}
	type vitem struct {
		fc   *p9p.Fcall
		ref  []byte
		want *refwire.Msg
		name string
	}
	var vs []vitem
	for i := range c.Msgs {
		m := &c.Msgs[i]
		vs = append(vs, vitem{fc: gen.ToFcall(m, 0), ref: refwire.Encode(m), want: refwire.Canon(m), name: refwire.KindName[m.Kind]})
	}
	type ditem struct {
		d    p9p.Dir
		ref  []byte
		want refwire.D
	}
	var ds []ditem
	for _, d := range c.Dirs {
		ds = append(ds, ditem{d: gen.ToDir(d, 0), ref: refwire.EncodeStat(d), want: refwire.CanonStat(d)})
	}
	type hitem struct {
		asDir bool
		in    []byte
		alone string
	}
	var hs []hitem
	for i := range c.Hostile {
		in, _, _ := c.Hostile[i].Input()
		h := hitem{asDir: c.Hostile[i].AsDir, in: in}
		func() {
			defer func() {
				if r := recover(); r != nil {
					h.alone = fmt.Sprintf("panic: %v", r)
				}
			}()
			h.alone = outcomeOf(h.asDir, in, codec, false)
		}()
		if len(h.alone) > 6 && h.alone[:6] == "panic:" {
			return harn.Fail("decoding a %d-byte input alone panicked: %s", len(in), h.alone)
		}
		if h.alone == "error" {
			res.Classes = append(res.Classes, "hostile_rejected_first")
		}
		hs = append(hs, h)
	}
	if len(hs) > 0 {
		res.Classes = append(res.Classes, "with_hostile")
	}

	var mu sync.Mutex
	var first string
	fail := func(format string, a ...any) {
		mu.Lock()
		if first == "" {
			first = fmt.Sprintf(format, a...)
		}
		mu.Unlock()
	}
	failed := func() bool { mu.Lock(); defer mu.Unlock(); return first != "" }

	var wg sync.WaitGroup
	for g := 0; g < c.G; g++ {
		wg.Add(1)
		go func(g int) {
			defer wg.Done()
			defer func() {
				if r := recover(); r != nil {
					fail("goroutine %d of %d panicked inside the codec on well-defined input: %v\n%s", g, c.G, r, trim(debug.Stack()))
				}
			}()
			cd := codec
			if c.Fresh && g%2 == 1 {
				cd = p9p.NewCodec()
			}
			for r := 0; r < c.Rounds && !failed(); r++ {
				for k := range vs {
					v := vs[(k+g)%len(vs)]
					got, err := cd.Marshal(v.fc)
					if err != nil {
						fail("concurrent Marshal(%s) failed: %v", v.name, err)
						return
					}
					if i := firstDiff(got, v.ref); i >= 0 {
						fail("Marshal(%s) while %d other goroutines use the codec differs from the 9P2000 layout at byte %d: got [%s] want [%s]", v.name, c.G-1, i, window(got, i), window(v.ref, i))
						return
					}
					if sz := cd.Size(v.fc); sz != len(v.ref) {
						fail("concurrent Size(%s) = %d, encoding has %d bytes", v.name, sz, len(v.ref))
						return
					}
					var out p9p.Fcall
					if err := cd.Unmarshal(v.ref, &out); err != nil {
						fail("Unmarshal(%s) of a valid encoding while %d other goroutines use the codec failed: %v", v.name, c.G-1, err)
						return
					}
					back, err := gen.FromFcall(&out)
					if err != nil {
						fail("concurrent Unmarshal(%s) produced a malformed Fcall: %v", v.name, err)
						return
					}
					if !reflect.DeepEqual(back, v.want) {
						fail("Unmarshal(%s) while %d other goroutines use the codec is not the original: %s", v.name, c.G-1, diff(back, v.want))
						return
					}
				}
				for k := range ds {
					d := ds[(k+g)%len(ds)]
					var buf bytes.Buffer
					if err := p9p.EncodeDir(cd, &buf, &d.d); err != nil || !bytes.Equal(buf.Bytes(), d.ref) {
						fail("concurrent EncodeDir: err=%v, differs from stat(5) layout at byte %d", err, firstDiff(buf.Bytes(), d.ref))
						return
					}
					buf.Write(d.ref)
					rd := bytes.NewReader(buf.Bytes())
					for i := 0; i < 2; i++ {
						var o p9p.Dir
						if err := p9p.DecodeDir(cd, rd, &o); err != nil {
							fail("DecodeDir of a valid record while %d other goroutines use the codec failed: %v", c.G-1, err)
							return
						}
						if back := gen.FromDir(o); !reflect.DeepEqual(back, d.want) {
							fail("DecodeDir while %d other goroutines use the codec is not the original: %s", c.G-1, diff(back, d.want))
							return
						}
					}
				}
				for k := range hs {
					h := hs[(k+g)%len(hs)]
					if got := outcomeOf(h.asDir, h.in, cd, (r+g)%2 == 1); got != h.alone {
						fail("decoding [% x] (asDir=%v) gives a different outcome while other goroutines use the codec: alone %s, now %s", head(h.in), h.asDir, h.alone, got)
						return
					}
				}
			}
		}(g)
	}
	wg.Wait()
	if first != "" {
		return harn.Fail("%s", first)
	}
	return res
}
