// Package wire decides C01 (wire format conforms to 9P2000 and round-trips)
// and C04 (decoding untrusted bytes is panic-free, proportionate, stable).
package wire

import (
	"bytes"
	"encoding/json"
	"fmt"
	"reflect"
	"time"

	p9p "github.com/frobnitzem/go-p9p"
	"pgregory.net/rapid"

	"verifharness/internal/gen"
	"verifharness/internal/harn"
	"verifharness/internal/refwire"
)

var codec = p9p.NewCodec()

// MsgCase is one message plus the time-location selector.
type MsgCase struct {
	Msg refwire.Msg
	Loc int
}

func GenMsgCase(kind uint8) func(t *rapid.T) MsgCase {
	return func(t *rapid.T) MsgCase {
		sz := gen.Sizes{Big: harn.Thorough(), FillStat: true}
		return MsgCase{Msg: gen.MsgOfKind(kind, sz).Draw(t, "msg"), Loc: rapid.IntRange(0, 2).Draw(t, "loc")}
	}
}

func diff(a, b any) string {
	ja, _ := json.Marshal(a)
	jb, _ := json.Marshal(b)
	if len(ja) > 600 {
		ja = append(ja[:600], "..."...)
	}
	if len(jb) > 600 {
		jb = append(jb[:600], "..."...)
	}
	return fmt.Sprintf("%s  vs  %s", ja, jb)
}

func firstDiff(a, b []byte) int {
	n := len(a)
	if len(b) < n {
		n = len(b)
	}
	for i := 0; i < n; i++ {
		if a[i] != b[i] {
			return i
		}
	}
	if len(a) != len(b) {
		return n
	}
	return -1
}

func window(b []byte, at int) string {
	lo, hi := at-8, at+8
	if lo < 0 {
		lo = 0
	}
	if hi > len(b) {
		hi = len(b)
	}
	return fmt.Sprintf("% x", b[lo:hi])
}

func classesOf(m *refwire.Msg) []string {
	cl := []string{"kind_" + refwire.KindName[m.Kind]}
	mx := 0
	for _, s := range [][]byte{m.Version, m.Uname, m.Aname, m.Ename, m.Name, m.Stat.Name, m.Stat.UID, m.Stat.GID, m.Stat.MUID} {
		if len(s) > mx {
			mx = len(s)
		}
	}
	for _, s := range m.Wnames {
		if len(s) > mx {
			mx = len(s)
		}
	}
	if mx == 65535 {
		cl = append(cl, "has_maxlen_string")
	}
	n := len(m.Wnames) + len(m.Qids)
	switch {
	case m.Kind != refwire.Twalk && m.Kind != refwire.Rwalk:
	case n == 0:
		cl = append(cl, "list_0")
	case n <= 16:
		cl = append(cl, "list_1_16")
	case n < 65535:
		cl = append(cl, "list_17plus")
	default:
		cl = append(cl, "list_65535")
	}
	if len(m.Payload()) >= 1<<20 {
		cl = append(cl, "data_1MiB")
	}
	return cl
}

// RunMsg is the C01 oracle for one message.
func RunMsg(c MsgCase) harn.Result {
	m := &c.Msg
	want := refwire.Canon(m)
	ref := refwire.Encode(m)
	zero := refwire.Canon(&refwire.Msg{Kind: m.Kind})
	res := harn.Result{Classes: classesOf(m)}
	wz := *want
	wz.Tag = 0
	res.NonTrivial = !reflect.DeepEqual(&wz, zero)

	fc := gen.ToFcall(m, c.Loc)
	before, err := gen.FromFcall(fc)
	if err != nil {
		return harn.Fail("internal: %v", err)
	}

	// (1) Marshal produces exactly the manual's layout
	got, err := codec.Marshal(fc)
	if err != nil {
		return harn.Fail("Marshal(%s) failed: %v", refwire.KindName[m.Kind], err)
	}
	if i := firstDiff(got, ref); i >= 0 {
		return harn.Fail("Marshal(%s) differs from the 9P2000 layout at byte %d (len %d vs %d): got [% s] want [% s]",
			refwire.KindName[m.Kind], i, len(got), len(ref), window(got, i), window(ref, i))
	}
	// (2) Size reports the number of bytes produced
	if sz := codec.Size(fc); sz != len(ref) {
		return harn.Fail("Size(%s) = %d, encoding has %d bytes", refwire.KindName[m.Kind], sz, len(ref))
	}
	// Marshal/Size do not modify their argument
	after, _ := gen.FromFcall(fc)
	if !reflect.DeepEqual(before, after) {
		return harn.Fail("Marshal modified its argument: %s", diff(before, after))
	}
	// (3) decoding the library's own bytes yields the original
	for pass, in := range [][]byte{got, ref} {
		var out p9p.Fcall
		if err := codec.Unmarshal(in, &out); err != nil {
			return harn.Fail("Unmarshal(%s, pass %d) failed: %v", refwire.KindName[m.Kind], pass, err)
		}
		back, err := gen.FromFcall(&out)
		if err != nil {
			return harn.Fail("Unmarshal(%s) produced a malformed Fcall: %v", refwire.KindName[m.Kind], err)
		}
		if !reflect.DeepEqual(back, want) {
			return harn.Fail("Unmarshal(%s, pass %d) is not the original: %s", refwire.KindName[m.Kind], pass, diff(back, want))
		}
	}
	return res
}

// DirCase: a stand-alone stat record (as used in directory reads).
type DirCase struct {
	Stat refwire.D
	Qid  refwire.Q
	Loc  int
}

func GenDirCase(t *rapid.T) DirCase {
	sz := gen.Sizes{Big: harn.Thorough(), FillStat: true}
	c := DirCase{Stat: gen.Stat(sz).Draw(t, "stat"), Qid: gen.Qid().Draw(t, "qid"), Loc: rapid.IntRange(0, 2).Draw(t, "loc")}
	if rapid.IntRange(0, 39).Draw(t, "maxsizefield") == 0 {
		// a stand-alone record (directory read) whose own size field is 65534 or 65535: the
		// largest values the field can carry (inside Rstat/Twstat the outer count stops at 65533)
		total := 65535 - 39 - 8 - rapid.IntRange(0, 1).Draw(t, "under")
		a := rapid.IntRange(0, total).Draw(t, "cut")
		c.Stat.Name, c.Stat.UID = harn.B(bytes.Repeat([]byte{'n'}, a)), harn.B(bytes.Repeat([]byte{'u'}, total-a))
		c.Stat.GID, c.Stat.MUID = nil, nil
	}
	return c
}

func RunDir(c DirCase) harn.Result {
	want := refwire.CanonStat(c.Stat)
	ref := refwire.EncodeStat(c.Stat)
	res := harn.Result{NonTrivial: !reflect.DeepEqual(want, refwire.D{}), Classes: []string{"dir_standalone"}}
	d := gen.ToDir(c.Stat, c.Loc)

	for _, v := range []any{d, &d} {
		got, err := codec.Marshal(v)
		if err != nil {
			return harn.Fail("Marshal(Dir) failed: %v", err)
		}
		if i := firstDiff(got, ref); i >= 0 {
			return harn.Fail("Marshal(%T) differs from stat(5) layout at byte %d (len %d vs %d): got [%s] want [%s]", v, i, len(got), len(ref), window(got, i), window(ref, i))
		}
		if sz := codec.Size(v); sz != len(ref) {
			return harn.Fail("Size(%T) = %d, encoding has %d bytes", v, sz, len(ref))
		}
	}
	var out p9p.Dir
	if err := codec.Unmarshal(ref, &out); err != nil {
		return harn.Fail("Unmarshal(Dir) failed: %v", err)
	}
	if back := gen.FromDir(out); !reflect.DeepEqual(back, want) {
		return harn.Fail("Unmarshal(Dir) is not the original: %s", diff(back, want))
	}
	// decoding into a variable that already holds another record (a loop that reuses its
	// Dir) yields the record on the wire, nothing of the previous content
	dirty := func() p9p.Dir {
		return p9p.Dir{Type: 0xAAAA, Dev: 0xBBBBBBBB, Qid: p9p.Qid{Type: 0xCC, Version: 0xDDDDDDDD, Path: 0xEEEEEEEEEEEEEEEE}, Mode: 0x99999999,
			AccessTime: time.Unix(77, 0), ModTime: time.Unix(88, 0), Length: 0x1111111111111111, Name: "old-name", UID: "old-uid", GID: "old-gid", MUID: "old-muid"}
	}
	out = dirty()
	if err := codec.Unmarshal(ref, &out); err != nil {
		return harn.Fail("Unmarshal(Dir) into a used variable failed: %v", err)
	}
	if back := gen.FromDir(out); !reflect.DeepEqual(back, want) {
		return harn.Fail("Unmarshal(Dir) into a variable that held another record is not the record on the wire: %s", diff(back, want))
	}
	// EncodeDir / DecodeDir, with a second record behind the first
	var buf bytes.Buffer
	if err := p9p.EncodeDir(codec, &buf, &d); err != nil {
		return harn.Fail("EncodeDir failed: %v", err)
	}
	if !bytes.Equal(buf.Bytes(), ref) {
		return harn.Fail("EncodeDir differs from stat(5) layout at byte %d", firstDiff(buf.Bytes(), ref))
	}
	buf.Write(ref)
	rd := bytes.NewReader(buf.Bytes())
	o2 := dirty()
	for i := 0; i < 2; i++ {
		if i == 1 {
			o2 = dirty()
		}
		if err := p9p.DecodeDir(codec, rd, &o2); err != nil {
			return harn.Fail("DecodeDir(record %d) failed: %v", i, err)
		}
		if back := gen.FromDir(o2); !reflect.DeepEqual(back, want) {
			return harn.Fail("DecodeDir(record %d) is not the original: %s", i, diff(back, want))
		}
	}
	if rd.Len() != 0 {
		return harn.Fail("DecodeDir left %d bytes unconsumed", rd.Len())
	}

	// Qid stand-alone
	q := gen.ToQid(c.Qid)
	qref := refwire.EncodeQid(c.Qid)
	got, err := codec.Marshal(q)
	if err != nil || !bytes.Equal(got, qref) {
		return harn.Fail("Marshal(Qid) = [% x], %v; want [% x]", got, err, qref)
	}
	if codec.Size(q) != 13 {
		return harn.Fail("Size(Qid) = %d", codec.Size(q))
	}
	var q2 p9p.Qid
	if err := codec.Unmarshal(qref, &q2); err != nil || q2 != q {
		return harn.Fail("Unmarshal(Qid) = %v, %v; want %v", q2, err, q)
	}
	return res
}

// DecodeDiff is the decode-side differential used by the native fuzz target:
// arbitrary bytes → the library and the reference decoder must agree on
// success/failure and, on success, on the value.
func DecodeDiff(in []byte) error {
	var out p9p.Fcall
	lerr := codec.Unmarshal(in, &out)
	rm, _, rerr := refwire.Decode(in)
	if (lerr == nil) != (rerr == nil) {
		return fmt.Errorf("library and reference decoder disagree on [% x]: library err=%v, reference err=%v", head(in), lerr, rerr)
	}
	if lerr != nil {
		return nil
	}
	back, err := gen.FromFcall(&out)
	if err != nil {
		return fmt.Errorf("Unmarshal produced a malformed Fcall from [% x]: %v", head(in), err)
	}
	if !reflect.DeepEqual(back, refwire.Canon(rm)) {
		return fmt.Errorf("decoders disagree on [% x]: %s", head(in), diff(back, refwire.Canon(rm)))
	}
	return nil
}

func head(b []byte) []byte {
	if len(b) > 64 {
		return b[:64]
	}
	return b
}
