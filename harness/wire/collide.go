package wire

// History-dependent decoding (C01: "decoding those bytes yields a message equal to the
// original" — whatever was decoded before).  A decoder that caches or interns strings
// under a hash shows nothing on random inputs (a 32-bit collision between two short strings
// needs ~10^5 of them); so pairs of distinct equal-length strings that collide under the
// common 32-bit hashes are computed here and decoded one after the other.

import (
	"fmt"
	"hash/adler32"
	"hash/crc32"
	"hash/fnv"
	"reflect"

	p9p "github.com/frobnitzem/go-p9p"

	"verifharness/internal/gen"
	"verifharness/internal/harn"
	"verifharness/internal/refwire"
)

type collision struct {
	Hash string
	A, B string
}

func hashers() map[string]func(string) uint32 {
	cast := crc32.MakeTable(crc32.Castagnoli)
	return map[string]func(string) uint32{
		"fnv1a32": func(s string) uint32 { h := fnv.New32a(); h.Write([]byte(s)); return h.Sum32() },
		"fnv1_32": func(s string) uint32 { h := fnv.New32(); h.Write([]byte(s)); return h.Sum32() },
		"crc32":   func(s string) uint32 { return crc32.ChecksumIEEE([]byte(s)) },
		"crc32c":  func(s string) uint32 { return crc32.Checksum([]byte(s), cast) },
		"adler32": func(s string) uint32 { return adler32.Checksum([]byte(s)) },
		"djb2": func(s string) uint32 {
			h := uint32(5381)
			for i := 0; i < len(s); i++ {
				h = h*33 + uint32(s[i])
			}
			return h
		},
		"java31": func(s string) uint32 {
			h := uint32(0)
			for i := 0; i < len(s); i++ {
				h = h*31 + uint32(s[i])
			}
			return h
		},
	}
}

// findCollisions returns up to perHash colliding pairs per hash function among n distinct 9-byte names.
func findCollisions(n, perHash int) []collision {
	var out []collision
	names := make([]string, n)
	for i := range names {
		names[i] = fmt.Sprintf("u%08x", uint32(i)*0x9E3779B1) // well spread 9-byte names, all distinct
	}
	for name, h := range hashers() {
		seen := make(map[uint32]int32, n)
		found := 0
		for i, s := range names {
			k := h(s)
			if j, ok := seen[k]; ok {
				out = append(out, collision{Hash: name, A: names[j], B: s})
				found++
				if found >= perHash {
					break
				}
				continue
			}
			seen[k] = int32(i)
		}
	}
	return out
}

type CollideCase struct {
	Hash string
	A, B string
}

func RunCollide(c CollideCase) harn.Result {
	mk := func(s string) []refwire.Msg {
		b := harn.B(s)
		return []refwire.Msg{
			{Kind: refwire.Rerror, Tag: 1, Ename: b},
			{Kind: refwire.Twalk, Tag: 2, Fid: 1, Newfid: 2, Wnames: []harn.B{b, harn.B("x"), b}},
			{Kind: refwire.Tattach, Tag: 3, Fid: 1, Afid: ^uint32(0), Uname: b, Aname: b},
			{Kind: refwire.Rstat, Tag: 4, Stat: refwire.D{Name: b, UID: b, GID: harn.B("g"), MUID: b}},
			{Kind: refwire.Tversion, Tag: 0xFFFF, MSize: 8192, Version: b},
			{Kind: refwire.Tcreate, Tag: 5, Fid: 1, Name: b, Perm: 0644},
		}
	}
	for round, order := range [][2]string{{c.A, c.B}, {c.B, c.A}, {c.A, c.B}} {
		for _, s := range order {
			for _, m := range mk(s) {
				m := m
				var out p9p.Fcall
				if err := codec.Unmarshal(refwire.Encode(&m), &out); err != nil {
					return harn.Fail("Unmarshal(%s with %q) failed: %v", refwire.KindName[m.Kind], s, err)
				}
				back, err := gen.FromFcall(&out)
				if err != nil {
					return harn.Fail("Unmarshal(%s) produced a malformed Fcall: %v", refwire.KindName[m.Kind], err)
				}
				if want := refwire.Canon(&m); !reflect.DeepEqual(back, want) {
					return harn.Fail("Unmarshal(%s carrying %q), decoded after messages carrying %q (same length, same %s value; round %d), is not the original: %s",
						refwire.KindName[m.Kind], s, map[bool]string{true: c.B, false: c.A}[s == c.A], c.Hash, round, diff(back, want))
				}
			}
			var d p9p.Dir
			st := refwire.D{Name: harn.B(s), UID: harn.B(s)}
			if err := codec.Unmarshal(refwire.EncodeStat(st), &d); err != nil {
				return harn.Fail("Unmarshal(Dir with %q) failed: %v", s, err)
			}
			if back := gen.FromDir(d); !reflect.DeepEqual(back, refwire.CanonStat(st)) {
				return harn.Fail("Unmarshal(Dir carrying %q) after a record carrying a string of the same length and %s value is not the original: %s", s, c.Hash, diff(back, refwire.CanonStat(st)))
			}
		}
	}
	return harn.Result{NonTrivial: true, Classes: []string{"hash_collision_pair_" + c.Hash}}
}
