package wire

import (
	"encoding/binary"

	"verifharness/internal/harn"
	"verifharness/internal/refwire"
)

// seedCorpus: a valid encoding of every message kind plus each of them with
// its length/count fields overwritten by hostile constants.
func seedCorpus() [][]byte {
	st := refwire.D{Type: 1, Dev: 2, Qid: refwire.Q{Type: 0x80, Version: 3, Path: 4}, Mode: 0x800001ed, Atime: 5, Mtime: 6, Length: 7,
		Name: harn.B("name"), UID: harn.B("u"), GID: harn.B("g"), MUID: harn.B("m")}
	var out [][]byte
	hostile := []uint32{0, 1, 3, 4, 0x7fff, 0xffff, 0x7fffffff, 0xffffffff}
	for _, k := range refwire.Kinds {
		m := refwire.Msg{Kind: k, Tag: 7, MSize: 8192, Version: harn.B("9P2000"), Afid: 1, Uname: harn.B("u"), Aname: harn.B("a"),
			Fid: 2, Newfid: 3, Ename: harn.B("err"), Oldtag: 4, Wnames: []harn.B{harn.B("x"), harn.B("yy")},
			Qids: []refwire.Q{{Type: 1, Version: 2, Path: 3}}, Mode: 1, IOUnit: 9, Name: harn.B("n"), Perm: 0644, Offset: 10, Count: 11,
			Data: harn.B("data"), Stat: st}
		b, fields := refwire.EncodeMap(&m)
		out = append(out, b)
		for _, f := range fields {
			for _, h := range hostile {
				c := append([]byte(nil), b...)
				if f.Width == 2 {
					binary.LittleEndian.PutUint16(c[f.Off:], uint16(h))
				} else {
					binary.LittleEndian.PutUint32(c[f.Off:], h)
				}
				out = append(out, c)
			}
		}
	}
	out = append(out, []byte{106, 0, 0}, []byte{99, 0, 0}, []byte{128, 0, 0}, []byte{}, []byte{100})
	return out
}

func statCorpus() [][]byte {
	st := refwire.D{Type: 1, Dev: 2, Qid: refwire.Q{Type: 0x80, Version: 3, Path: 4}, Mode: 0x800001ed, Atime: 5, Mtime: 6, Length: 7,
		Name: harn.B("name"), UID: harn.B("u"), GID: harn.B("g"), MUID: harn.B("m")}
	b, fields := refwire.EncodeStatMap(st)
	out := [][]byte{b, {}, {0}, {0, 0}, {0xff, 0xff}, {0xfe, 0xff}, {0xfd, 0xff}}
	for _, f := range fields {
		for _, h := range []uint16{0, 1, 3, 0x7fff, 0xfffd, 0xfffe, 0xffff} {
			c := append([]byte(nil), b...)
			binary.LittleEndian.PutUint16(c[f.Off:], h)
			out = append(out, c)
		}
	}
	return out
}
