package wire

import (
	"bytes"
	"encoding/binary"
	"fmt"
	"io"
	"reflect"
	"runtime"
	"runtime/debug"
	"testing/iotest"

	p9p "github.com/frobnitzem/go-p9p"
	"pgregory.net/rapid"

	"verifharness/internal/gen"
	"verifharness/internal/harn"
	"verifharness/internal/refwire"
)

// Mut is one mutation of a valid encoding.
type Mut struct {
	Op    string // "field": overwrite a length/count field; "trunc"; "append"; "type"; "byte"
	Field int    // index into the encoding's length-field map (mod its size)
	Val   uint32 // new value for field/type/byte
	Rel   int    // for field: 0 = use Val, ±1 = true length ±1
	Pos   int    // for trunc/byte: position (mod length)
	Tail  harn.B // for append
}

// UntrustedCase: decode Input(c) as an Fcall (AsDir=false) or through
// DecodeDir (AsDir=true).
type UntrustedCase struct {
	AsDir bool
	Msg   refwire.Msg // base message (AsDir: only Msg.Stat is used)
	Muts  []Mut
	Raw   harn.B // if non-empty, the input is exactly these bytes
}

var hostile = []uint32{0, 1, 2, 3, 4, 0xff, 0x100, 0x7fff, 0x8000, 0xfffd, 0xfffe, 0xffff, 0x10000, 0x7fffffff, 0x80000000, 0xfffffffe, 0xffffffff}

func genMut(t *rapid.T) Mut {
	op := rapid.SampledFrom([]string{"field", "field", "field", "field", "trunc", "trunc", "append", "type", "byte"}).Draw(t, "op")
	m := Mut{Op: op}
	switch op {
	case "field":
		m.Field = rapid.IntRange(0, 40).Draw(t, "field")
		m.Rel = rapid.SampledFrom([]int{0, 0, 0, 1, -1}).Draw(t, "rel")
		m.Val = rapid.OneOf(rapid.SampledFrom(hostile), rapid.Uint32()).Draw(t, "val")
	case "trunc":
		m.Pos = rapid.IntRange(0, 1<<20).Draw(t, "pos")
	case "append":
		m.Tail = harn.B(rapid.SliceOfN(rapid.Byte(), 1, 20).Draw(t, "tail"))
	case "type":
		m.Val = uint32(rapid.OneOf(rapid.SampledFrom([]uint8{0, 99, 100, 106, 127, 128, 255}), rapid.Uint8()).Draw(t, "type"))
	case "byte":
		m.Pos = rapid.IntRange(0, 1<<20).Draw(t, "pos")
		m.Val = uint32(rapid.Byte().Draw(t, "b"))
	}
	return m
}

func GenUntrusted(t *rapid.T) UntrustedCase {
	var c UntrustedCase
	sz := gen.Sizes{Big: harn.Thorough()}
	c.AsDir = rapid.IntRange(0, 4).Draw(t, "asdir") == 0
	if rapid.IntRange(0, 9).Draw(t, "raw") == 0 {
		c.Raw = harn.B(rapid.SliceOfN(rapid.Byte(), 1, 64).Draw(t, "rawbytes"))
		return c
	}
	if c.AsDir {
		c.Msg = refwire.Msg{Kind: refwire.Rstat, Stat: gen.Stat(sz).Draw(t, "stat")}
	} else {
		c.Msg = gen.AnyMsg(sz).Draw(t, "msg")
	}
	// (session 3) shapes a decoder accepts but an encoder never produces from ordinary values:
	// a stat record filled by its strings up to the last values its 16-bit size field can hold
	// (65534 and 65535 make the *outer* size of Rstat/Twstat wrap), and directory entries whose
	// names end in one or more slashes; both with and without further mutation
	if special := rapid.IntRange(0, 11).Draw(t, "special"); special < 2 {
		if !c.AsDir {
			c.Msg = refwire.Msg{Kind: rapid.SampledFrom([]uint8{refwire.Rstat, refwire.Twstat}).Draw(t, "statkind"), Tag: gen.U16().Draw(t, "tag"), Fid: gen.U32().Draw(t, "fid"), Stat: c.Msg.Stat}
			c.Msg.Stat = gen.Stat(sz).Draw(t, "stat2")
		}
		st := &c.Msg.Stat
		if special == 0 {
			total := 65535 - 39 - 8 - rapid.IntRange(0, 3).Draw(t, "under") // size field 65535-under
			cut := rapid.SampledFrom([]int{0, 1, 2, total / 2, total - 3}).Draw(t, "cut")
			st.Name, st.UID, st.GID, st.MUID = harn.B(bytes.Repeat([]byte{'n'}, total-cut)), harn.B(bytes.Repeat([]byte{'u'}, cut)), nil, nil
		} else {
			st.Mode |= 0x80000000
			if len(st.Name) > 60000 {
				st.Name = st.Name[:100]
			}
			st.Name = append(append(harn.B(nil), st.Name...), harn.B(rapid.SampledFrom([]string{"/", "//", "///", "/.", "/..", "/./"}).Draw(t, "slashes"))...)
		}
	}
	c.Muts = rapid.SliceOfN(rapid.Custom(genMut), 0, 3).Draw(t, "muts")
	return c
}

// Input builds the byte string for a case; mutated reports whether it
// differs from the valid encoding.
func (c *UntrustedCase) Input() (in []byte, mutated bool, kinds []string) {
	if len(c.Raw) > 0 {
		return c.Raw, true, []string{"raw"}
	}
	var fields []refwire.Field
	if c.AsDir {
		in, fields = refwire.EncodeStatMap(c.Msg.Stat)
	} else {
		in, fields = refwire.EncodeMap(&c.Msg)
	}
	orig := append([]byte(nil), in...)
	for _, mu := range c.Muts {
		switch mu.Op {
		case "field":
			if len(fields) == 0 {
				continue
			}
			f := fields[mu.Field%len(fields)]
			if f.Off+f.Width > len(in) {
				continue
			}
			var cur uint32
			if f.Width == 2 {
				cur = uint32(binary.LittleEndian.Uint16(in[f.Off:]))
			} else {
				cur = binary.LittleEndian.Uint32(in[f.Off:])
			}
			v := mu.Val
			if mu.Rel != 0 {
				v = cur + uint32(mu.Rel)
			}
			if f.Width == 2 {
				binary.LittleEndian.PutUint16(in[f.Off:], uint16(v))
			} else {
				binary.LittleEndian.PutUint32(in[f.Off:], v)
			}
			kinds = append(kinds, "mut_"+f.What)
		case "trunc":
			if len(in) > 0 {
				in = in[:mu.Pos%len(in)]
			}
			kinds = append(kinds, "mut_trunc")
		case "append":
			in = append(in, mu.Tail...)
			kinds = append(kinds, "mut_append")
		case "type":
			if len(in) > 0 && !c.AsDir {
				in[0] = byte(mu.Val)
			}
			kinds = append(kinds, "mut_type")
		case "byte":
			if len(in) > 0 {
				in[mu.Pos%len(in)] = byte(mu.Val)
			}
			kinds = append(kinds, "mut_byte")
		}
	}
	return in, !bytes.Equal(in, orig), kinds
}

// Allocation bound: a small constant plus a linear function of the input
// length.  The constant covers fixed overheads and the largest single
// 16-bit-length string / stat buffer (64 KiB, twice for DecodeDir's copy);
// the factor covers the in-memory expansion of valid data (a 2-byte empty
// string becomes a string header, an interface slot and reader scratch).
const (
	allocConst  = 256 << 10
	allocFactor = 96
)

func allocBound(n int) uint64 { return allocConst + allocFactor*uint64(n) }

// measure runs f and returns the bytes it allocated (TotalAlloc delta), plus
// any panic.  Runs on the calling goroutine with GC disabled for the call.
func measure(f func()) (alloc uint64, pv any, stack []byte) {
	var a, b runtime.MemStats
	runtime.ReadMemStats(&a)
	func() {
		defer func() {
			if r := recover(); r != nil {
				pv = r
				stack = debug.Stack()
			}
		}()
		f()
	}()
	runtime.ReadMemStats(&b)
	return b.TotalAlloc - a.TotalAlloc, pv, stack
}

func decodeOnce(asDir bool, in []byte) (fc *p9p.Fcall, d *p9p.Dir, err error) {
	if asDir {
		d = new(p9p.Dir)
		var rd io.Reader = bytes.NewReader(in)
		if len(in)%3 == 1 {
			rd = iotest.OneByteReader(rd) // DecodeDir takes any io.Reader: one that hands out a byte at a time
		}
		err = p9p.DecodeDir(codec, rd, d)
		return nil, d, err
	}
	fc = new(p9p.Fcall)
	err = codec.Unmarshal(in, fc)
	return fc, nil, err
}

// CheckUntrusted is the C04 oracle on one byte string.
func CheckUntrusted(asDir bool, in []byte) (ok bool, err error) {
	var fc *p9p.Fcall
	var d *p9p.Dir
	var derr error
	alloc, pv, stack := measure(func() { fc, d, derr = decodeOnce(asDir, in) })
	what := "Unmarshal"
	if asDir {
		what = "DecodeDir"
	}
	if pv != nil {
		return false, fmt.Errorf("%s panicked on %d-byte input [% x]: %v\n%s", what, len(in), head(in), pv, trim(stack))
	}
	if alloc > allocBound(len(in)) {
		// re-measure twice and take the minimum so allocator noise cannot decide
		for i := 0; i < 2 && alloc > allocBound(len(in)); i++ {
			a2, _, _ := measure(func() { decodeOnce(asDir, in) })
			if a2 < alloc {
				alloc = a2
			}
		}
		if alloc > allocBound(len(in)) {
			return false, fmt.Errorf("%s allocated %d bytes for a %d-byte input [% x] (bound %d = %d + %d*len)", what, alloc, len(in), head(in), allocBound(len(in)), allocConst, allocFactor)
		}
	}
	if derr != nil {
		return false, nil
	}
	// stability: re-encode, decode again, same value
	if asDir {
		b, err := codec.Marshal(*d)
		if err != nil {
			return true, fmt.Errorf("DecodeDir succeeded on [% x] but re-encoding fails: %v", head(in), err)
		}
		var d2 p9p.Dir
		if err := p9p.DecodeDir(codec, bytes.NewReader(b), &d2); err != nil {
			return true, fmt.Errorf("DecodeDir succeeded on [% x] but decoding the re-encoding fails: %v", head(in), err)
		}
		if a, b := gen.FromDir(*d), gen.FromDir(d2); !reflect.DeepEqual(a, b) {
			return true, fmt.Errorf("DecodeDir not stable on [% x]: %s", head(in), diff(a, b))
		}
		return true, nil
	}
	v1, err := gen.FromFcall(fc)
	if err != nil {
		return true, fmt.Errorf("Unmarshal succeeded on [% x] but produced a malformed Fcall: %v", head(in), err)
	}
	b, err := codec.Marshal(fc)
	if err != nil {
		return true, fmt.Errorf("Unmarshal succeeded on [% x] but re-encoding fails: %v", head(in), err)
	}
	var fc2 p9p.Fcall
	if err := codec.Unmarshal(b, &fc2); err != nil {
		return true, fmt.Errorf("Unmarshal succeeded on [% x] but decoding the re-encoding fails: %v", head(in), err)
	}
	v2, err := gen.FromFcall(&fc2)
	if err != nil || !reflect.DeepEqual(v1, v2) {
		return true, fmt.Errorf("Unmarshal not stable on [% x]: %v %s", head(in), err, diff(v1, v2))
	}
	return true, nil
}

func trim(s []byte) []byte {
	if len(s) > 1500 {
		return s[:1500]
	}
	return s
}

func RunUntrusted(c UntrustedCase) harn.Result {
	in, mutated, kinds := c.Input()
	ok, err := CheckUntrusted(c.AsDir, in)
	if err != nil {
		return harn.Result{Err: err}
	}
	res := harn.Result{NonTrivial: mutated && len(in) > 3}
	outcome := "_err"
	if ok {
		outcome = "_ok"
	}
	for _, k := range kinds {
		res.Classes = append(res.Classes, k+outcome)
	}
	if c.AsDir {
		res.Classes = append(res.Classes, "decodedir"+outcome)
	} else {
		res.Classes = append(res.Classes, "unmarshal"+outcome)
	}
	return res
}

// SweepCounts decodes, for the two list-carrying kinds, an input with *every*
// 16-bit element count followed by a short tail, and checks the allocation bound
// in batches (bisecting a batch that exceeds the sum of its bounds).  A bound
// check on the count that wraps around, or that is scaled wrongly, lets a few
// isolated counts through; only an exhaustive sweep is sure to meet them.
func SweepCounts(tails []int) (n int, bad []byte, err error) {
	type in struct{ b []byte }
	var inputs [][]byte
	for _, kind := range []uint8{refwire.Twalk, refwire.Rwalk} {
		hdr := []byte{kind, 0, 0}
		if kind == refwire.Twalk {
			hdr = append(hdr, 1, 0, 0, 0, 2, 0, 0, 0) // fid, newfid
		}
		for c := 0; c < 65536; c++ {
			for _, tl := range tails {
				b := append(append([]byte(nil), hdr...), byte(c), byte(c>>8))
				for i := 0; i < tl; i++ {
					b = append(b, 0)
				}
				inputs = append(inputs, b)
			}
		}
	}
	var check func(batch [][]byte) error
	check = func(batch [][]byte) error {
		var bound uint64
		for _, b := range batch {
			bound += allocBound(len(b))
		}
		if len(batch) > 1 {
			// the constant part of the bound is per call; for a batch use a tighter sum so that one
			// outlier of a few hundred KiB cannot hide among cheap neighbours
			bound = 64<<10 + uint64(len(batch))*1024
		}
		alloc, pv, stack := measure(func() {
			for _, b := range batch {
				var fc p9p.Fcall
				codec.Unmarshal(b, &fc)
			}
		})
		if pv != nil {
			return fmt.Errorf("Unmarshal panicked in the count sweep: %v\n%s", pv, trim(stack))
		}
		if alloc <= bound {
			return nil
		}
		if len(batch) == 1 {
			_, e := CheckUntrusted(false, batch[0])
			if e != nil {
				bad = batch[0]
			}
			return e
		}
		if e := check(batch[:len(batch)/2]); e != nil {
			return e
		}
		return check(batch[len(batch)/2:])
	}
	for i := 0; i < len(inputs); i += 256 {
		j := i + 256
		if j > len(inputs) {
			j = len(inputs)
		}
		if e := check(inputs[i:j]); e != nil {
			return i, bad, e
		}
	}
	return len(inputs), nil, nil
}
