package server

import (
	"context"
	"fmt"
	"reflect"
	"strings"
	"time"

	p9p "github.com/frobnitzem/go-p9p"

	"verifharness/internal/harn"
	"verifharness/internal/memconn"
	"verifharness/internal/peer"
	"verifharness/internal/refwire"
)

// Step is one action of the scripted client / handler schedule.
type Step struct {
	Op     string // send | complete | flush | idle | temperr
	NoWait bool   // do not wait for the step's effect before the next step (pipelining / bursts)
	// Oversize (complete): if the chosen request was flushed and the flush acknowledged, its handler's late result is larger than msize
	Oversize bool `json:",omitempty"`

	// send
	Msg    refwire.Msg `json:",omitempty"` // the request; tag and marker are assigned at run time
	TagSel int         `json:",omitempty"` // choice from the tag universe
	Dup    bool        `json:",omitempty"` // reuse the tag of a request whose handler is parked (expects the duplicate-tag error)
	Honour bool        `json:",omitempty"` // the handler returns as soon as its context is cancelled
	Reuse  bool        `json:",omitempty"` // C07: use the tag of a flushed request whose handler is still running, if there is one

	// complete
	Which   int          `json:",omitempty"`
	ResMsg  *refwire.Msg `json:",omitempty"` // the handler's result (an R message), or
	ErrText string       `json:",omitempty"` // the handler's error
	Plain   bool         `json:",omitempty"` // error is a plain Go error rather than MessageRerror
	ErrKind string       `json:",omitempty"` // special error values: canceled | deadline | wrap9p (see Outcome)
	Both    bool         `json:",omitempty"` // the handler returns a message together with its error

	// idle: nothing is sent for this many milliseconds; the server's read deadlines run 100
	// times faster in such a script, so 300 ms are its 30 s idle timeout
	IdleMs int `json:",omitempty"`

	// flush
	Target  string `json:",omitempty"` // parked | answered | unused | flushed (flush the same tag twice)
	Release string `json:",omitempty"` // "", "before", "after": release the target's handler right before / after sending the Tflush, without waiting
}

type ScriptCase struct {
	MSize      uint32
	Rendezvous bool
	Steps      []Step
	// Burst > 0: before the steps, this many requests are sent back to back and left
	// outstanding (their handlers parked), so that the steps run at a pipelining depth of
	// more than a hundred
	Burst int `json:",omitempty"`
}

var tagUniverse = []uint16{0, 1, 2, 3, 5, 7, 0x100, 0xFFFE, 0xFFFF, 11, 12, 13, 14, 15, 16, 17}

type req struct {
	tag      uint16
	marker   uint32
	hasMark  bool
	sent     *refwire.Msg // what the handler must see (Tag 0)
	inv      *Invocation
	invFrom  int
	released bool
	result   *refwire.Msg // expected reply (with tag), set on release
	replied  bool
	honour   bool

	isFlush bool
	target  *req // flush: the request being flushed (nil: tag not outstanding)
	// state of a request that is the target of a flush
	flushSent     bool
	flushAcked    bool
	parkedAtFlush bool
	dupPending    int
	dupSeen       int
	needInvoke    bool
	needReply     bool
	lateReleased  bool
	relOrder      int
}

type engine struct {
	c          ScriptCase
	h          *Handler
	p          *peer.Peer
	msize      uint32
	reqs       []*req
	byTag      map[uint16]*req
	byMarker   map[uint32]*req
	nextMark   uint32
	trace      []string
	flushTags  uint16
	classes    map[string]bool
	dispatched int
	relCount   int
}

const waitBound = 10 * time.Second

func (e *engine) tracef(format string, a ...any) {
	e.trace = append(e.trace, fmt.Sprintf(format, a...))
}

func (e *engine) history() string {
	t := e.trace
	if len(t) > 30 {
		t = append([]string{"…"}, t[len(t)-30:]...)
	}
	return strings.Join(t, "; ")
}

func (e *engine) fail(format string, a ...any) error {
	return fmt.Errorf("%s [script: %s]", fmt.Sprintf(format, a...), e.history())
}

func brief(m *refwire.Msg) string {
	if m == nil {
		return "<undecodable>"
	}
	s := fmt.Sprintf("%s(tag %d", refwire.KindName[m.Kind], m.Tag)
	if mk, ok := GetMarker(m); ok {
		s += fmt.Sprintf(" marker %#x", mk)
	}
	if m.Kind == refwire.Rerror {
		s += fmt.Sprintf(" %q", string(m.Ename))
	}
	return s + ")"
}

// processFrame checks one inbound frame against what is owed.
func (e *engine) processFrame(f peer.Frame) error {
	if f.Msg == nil {
		return e.fail("server sent a frame that does not decode: %v [% x]", f.Err, f.Raw)
	}
	if len(f.Raw) > int(e.msize) {
		return e.fail("server sent a %d-byte frame, msize is %d", len(f.Raw), e.msize)
	}
	m := f.Msg
	r := e.byTag[m.Tag]
	mk, hasMk := GetMarker(m)
	if r == nil {
		if hasMk {
			if rr := e.byMarker[mk]; rr != nil && rr.flushAcked {
				return e.fail("reply %s to the flushed request (marker %#x) was sent after its flush had been acknowledged", brief(m), mk)
			}
			if rr := e.byMarker[mk]; rr != nil && rr.replied {
				return e.fail("request with marker %#x (tag %d) was answered twice: second reply %s", mk, rr.tag, brief(m))
			}
		}
		return e.fail("unexpected frame %s: no request is awaiting a reply on tag %d", brief(m), m.Tag)
	}
	if r.isFlush {
		if m.Kind != refwire.Rflush && m.Kind != refwire.Rerror {
			return e.fail("Tflush (tag %d) answered with %s", r.tag, brief(m))
		}
		if r.replied {
			return e.fail("Tflush (tag %d) answered twice", r.tag)
		}
		r.replied = true
		delete(e.byTag, r.tag)
		if t := r.target; t != nil {
			t.flushAcked = true
			if e.byTag[t.tag] == t {
				delete(e.byTag, t.tag)
			}
		}
		return nil
	}
	// duplicate-tag error replies share the tag of the original request
	if r.dupPending > r.dupSeen && m.Kind == refwire.Rerror && strings.Contains(string(m.Ename), "duplicate tag") {
		r.dupSeen++
		return nil
	}
	if hasMk && r.hasMark && mk != r.marker {
		if rr := e.byMarker[mk]; rr != nil {
			if rr.flushAcked {
				return e.fail("the reply of the flushed request (marker %#x, flush acknowledged) was delivered on tag %d to a later request (marker %#x): %s", mk, m.Tag, r.marker, brief(m))
			}
			return e.fail("reply carrying the result of request marker %#x arrived for request marker %#x on tag %d: %s", mk, r.marker, m.Tag, brief(m))
		}
	}
	if r.flushAcked {
		return e.fail("reply %s to a flushed request arrived after the flush acknowledgement", brief(m))
	}
	if r.replied {
		return e.fail("request on tag %d (marker %#x) answered twice: %s", r.tag, r.marker, brief(m))
	}
	if !r.released || r.result == nil {
		// a handler that honours cancellation may have returned ctx.Err(): never legitimate without a flush
		return e.fail("reply %s arrived although the handler of the request on tag %d has not returned a result", brief(m), r.tag)
	}
	got := refwire.Canon(m)
	if !reflect.DeepEqual(got, r.result) {
		return e.fail("reply on tag %d is not what the handler returned: got %s, handler returned %s", r.tag, brief(got), brief(r.result))
	}
	r.replied = true
	if !r.flushSent {
		delete(e.byTag, r.tag)
	}
	return nil
}

// pump reads frames until cond holds; false = timed out.
func (e *engine) pump(cond func() bool, d time.Duration) (bool, error) {
	deadline := time.Now().Add(d)
	for !cond() {
		left := time.Until(deadline)
		if left <= 0 {
			return false, nil
		}
		f, ok, err := e.p.Next(left)
		if !ok {
			if err != nil {
				return false, e.fail("connection ended while waiting: %v", err)
			}
			return false, nil
		}
		if perr := e.processFrame(f); perr != nil {
			return false, perr
		}
	}
	return true, nil
}

// barrier waits for every owed invocation and reply.
func (e *engine) barrier() error {
	for _, r := range e.reqs {
		if r.needInvoke && r.inv == nil {
			from := r.invFrom
			var inv *Invocation
			if r.hasMark {
				inv = e.h.WaitFor(0, func(i *Invocation) bool {
					mk, ok := GetMarker(i.Msg)
					return ok && mk == r.marker && i.Msg.Kind == r.sent.Kind
				}, waitBound)
			} else {
				inv = e.h.WaitFor(from, func(i *Invocation) bool { return i.Seq >= from }, waitBound)
			}
			if inv == nil {
				return e.fail("handler was not invoked for request %s within %v", brief(r.sent), waitBound)
			}
			if !reflect.DeepEqual(inv.Msg, r.sent) {
				return e.fail("handler was invoked with %s, the client sent %s", js(inv.Msg), js(r.sent))
			}
			r.inv = inv
			r.needInvoke = false
		}
	}
	ok, err := e.pump(func() bool {
		for _, r := range e.reqs {
			if r.isFlush && !r.replied {
				return false
			}
			if r.needReply && !r.replied && !r.flushAcked {
				return false
			}
			if r.dupPending > r.dupSeen {
				return false
			}
		}
		return true
	}, waitBound)
	if err != nil {
		return err
	}
	if !ok {
		for _, r := range e.reqs {
			if r.isFlush && !r.replied {
				return e.fail("Tflush on tag %d received no reply within %v", r.tag, waitBound)
			}
			if r.needReply && !r.replied && !r.flushAcked {
				return e.fail("request on tag %d (marker %#x) received no reply within %v although its handler returned", r.tag, r.marker, waitBound)
			}
			if r.dupPending > r.dupSeen {
				return e.fail("request reusing outstanding tag %d received no duplicate-tag error within %v", r.tag, waitBound)
			}
		}
	}
	return nil
}

func js(m *refwire.Msg) string {
	if m == nil {
		return "<nil>"
	}
	c := *m
	if len(c.Data) > 16 {
		c.Data = c.Data[:16]
	}
	return fmt.Sprintf("%s%+v", refwire.KindName[c.Kind], struct {
		Fid, Afid, Newfid, MSize, Count, Perm, IOUnit uint32
		Offset                                        uint64
		Mode                                          uint8
		Names                                         []harn.B
		Str                                           string
		Data                                          []byte
	}{c.Fid, c.Afid, c.Newfid, c.MSize, c.Count, c.Perm, c.IOUnit, c.Offset, c.Mode, c.Wnames, string(c.Version) + "|" + string(c.Uname) + "|" + string(c.Aname) + "|" + string(c.Name) + "|" + string(c.Ename), c.Data})
}

func (e *engine) parked() []*req {
	var out []*req
	for _, r := range e.reqs {
		if !r.isFlush && r.inv != nil && !r.released {
			out = append(out, r)
		}
	}
	return out
}

func (e *engine) freeTag(sel int) uint16 {
	for i := 0; i < len(tagUniverse); i++ {
		t := tagUniverse[(sel+i)%len(tagUniverse)]
		if _, used := e.byTag[t]; !used && !e.tagHeldByRunningFlushed(t) {
			return t
		}
	}
	// fall back to a fresh number
	for t := uint16(100); ; t++ {
		if _, used := e.byTag[t]; !used {
			return t
		}
	}
}

// a flushed request whose handler has not returned: its tag is free for the
// client, but only a Reuse step picks it deliberately
func (e *engine) tagHeldByRunningFlushed(t uint16) bool {
	for _, r := range e.reqs {
		if r.tag == t && r.flushAcked && r.inv != nil && !r.released {
			return true
		}
	}
	return false
}

func (e *engine) release(r *req, st Step) {
	var out Outcome
	if st.ResMsg != nil {
		m := *st.ResMsg
		m.Tag = r.tag
		if !SetMarker(&m, r.marker) {
			// payload-less reply: attributable by tag only
		}
		c := refwire.Canon(&m)
		out.Msg = c
		r.result = c
	} else {
		text := fmt.Sprintf("E%08x:%s", r.marker, st.ErrText)
		out.ErrText, out.Plain, out.ErrKind = text, st.Plain, st.ErrKind
		if st.Both {
			out.Both, out.Msg = true, &refwire.Msg{Kind: refwire.Rwrite, Count: 0x7777}
			e.classes["message_together_with_error"] = true
		}
		_, want := ErrorOf(out)
		r.result = refwire.Canon(&refwire.Msg{Kind: refwire.Rerror, Tag: r.tag, Ename: harn.B(want)})
		if st.ErrKind != "" {
			e.classes["err_"+st.ErrKind] = true
		}
	}
	r.released = true
	e.relCount++
	r.relOrder = e.relCount
	r.inv.Release(out)
}

// roundTrip sends one more request through the server, completes it and waits for its reply.
func (e *engine) roundTrip() error {
	m := refwire.Msg{Kind: refwire.Tclunk, Tag: e.freeTag(3)}
	r := &req{tag: m.Tag}
	e.nextMark += 2
	r.marker = e.nextMark
	r.hasMark = SetMarker(&m, r.marker)
	e.byMarker[r.marker] = r
	r.sent = refwire.Canon(&m)
	r.sent.Tag = 0
	r.needInvoke = true
	e.reqs = append(e.reqs, r)
	e.byTag[r.tag] = r
	e.dispatched++
	e.tracef("round trip on tag %d", m.Tag)
	sent := make(chan error, 1)
	go func() { sent <- e.p.Send(&m) }()
	select {
	case <-sent:
	case <-time.After(waitBound):
		return e.fail("the server no longer reads requests: a %s frame could not be handed over for %v", refwire.KindName[m.Kind], waitBound)
	}
	if err := e.barrier(); err != nil {
		return err
	}
	e.release(r, defaultResult())
	r.needReply = true
	return e.barrier()
}

func defaultResult() Step {
	return Step{ResMsg: &refwire.Msg{Kind: refwire.Rwrite}}
}

// RunScript executes a C06/C07 script against a real ServeConn.
func RunScript(c ScriptCase, flushProperty bool) harn.Result {
	hasIdle := false
	for _, st := range c.Steps {
		if st.Op == "idle" {
			hasIdle = true
		}
	}
	a, b := memconn.NewPair(memconn.Options{Rendezvous: c.Rendezvous, HonorDeadlines: hasIdle})
	h := NewHandler()
	h.HonourFn = func(m *refwire.Msg) bool {
		mk, ok := GetMarker(m)
		return ok && mk&1 == 1
	}
	ctx, cancel := context.WithCancel(context.Background())
	served := make(chan error, 1)
	go func() { served <- p9p.ServeConn(ctx, b, h) }()
	defer func() {
		// let every handler goroutine finish, then tear down
		for _, inv := range h.All() {
			inv.Release(Outcome{ErrText: "teardown"})
		}
		cancel()
		a.Close()
		b.Close()
	}()
	e := &engine{c: c, h: h, p: peer.New(a), byTag: map[uint16]*req{}, byMarker: map[uint32]*req{}, nextMark: 0x100, classes: map[string]bool{}}
	rv, err := e.p.Handshake(c.MSize, waitBound)
	if err != nil {
		return harn.Fail("handshake with msize %d failed: %v", c.MSize, err)
	}
	e.msize = rv.MSize
	if e.msize > c.MSize {
		return harn.Fail("server answered msize %d to a proposal of %d", e.msize, c.MSize)
	}
	res := harn.Result{}
	pending := false // effects owed by NoWait steps
	steps := c.Steps
	if c.Burst > 0 {
		var burst []Step
		kinds := []uint8{refwire.Twrite, refwire.Tstat, refwire.Topen, refwire.Tread, refwire.Tclunk}
		for i := 0; i < c.Burst; i++ {
			burst = append(burst, Step{Op: "send", NoWait: i != c.Burst-1, Msg: refwire.Msg{Kind: kinds[i%len(kinds)], Fid: uint32(i), Count: 8}, TagSel: i, Honour: i%2 == 0})
		}
		steps = append(burst, c.Steps...)
		if c.Burst > 128 {
			e.classes["burst_over_128"] = true
		}
	}
	if hasIdle {
		b.ScaleReadDeadlines(100)
		// one round trip so that the server's reader re-arms its deadline under the new scale
		if err := e.roundTrip(); err != nil {
			return harn.Result{Err: err}
		}
	}
	for si, st := range steps {
		switch st.Op {
		case "temperr":
			// the server's next Read fails once with a temporary (non-timeout) error: not a failure of the connection
			if pending {
				if err := e.barrier(); err != nil {
					return harn.Result{Err: err}
				}
				pending = false
			}
			e.tracef("the server's read fails once with a temporary error")
			b.TempReadErrOnce()
			time.Sleep(200 * time.Microsecond)
			e.classes["temporary_read_error"] = true
			if err := e.roundTrip(); err != nil {
				return harn.Result{Err: err}
			}
		case "idle":
			if pending {
				if err := e.barrier(); err != nil {
					return harn.Result{Err: err}
				}
				pending = false
			}
			e.tracef("client idle for %d ms (= %d s of the server's read timeouts)", st.IdleMs, st.IdleMs/10)
			time.Sleep(time.Duration(st.IdleMs) * time.Millisecond)
			e.classes["idle_past_read_timeout"] = true
			if len(e.parked()) > 0 {
				e.classes["idle_with_handler_running"] = true
			}
			if err := e.roundTrip(); err != nil {
				return harn.Result{Err: err}
			}
		case "send":
			m := st.Msg
			r := &req{honour: st.Honour}
			park := e.parked()
			if st.Dup && len(park) > 0 {
				if pending {
					if err := e.barrier(); err != nil {
						return harn.Result{Err: err}
					}
					pending = false
					park = e.parked()
				}
				if len(park) == 0 {
					continue
				}
				orig := park[st.Which%len(park)]
				if orig.flushSent {
					continue
				}
				m.Tag = orig.tag
				SetMarker(&m, 0xDDDD0000+uint32(si))
				if m.Kind == refwire.Tflush {
					// a flush is a request like any other: one that reuses an outstanding tag
					// as its own tag is a duplicate, whatever it asks to flush
					if st.TagSel%2 == 0 {
						m.Oldtag = orig.tag
					} else {
						m.Oldtag = 0x7777
					}
					e.classes["duptag_tflush"] = true
				}
				before := h.Count()
				orig.dupPending++
				e.tracef("send %s on outstanding tag %d", refwire.KindName[m.Kind], m.Tag)
				if err := e.p.Send(&m); err != nil {
					return harn.Fail("HARNESS send: %v", err)
				}
				if err := e.barrier(); err != nil {
					return harn.Result{Err: err}
				}
				if h.Count() != before {
					return harn.Result{Err: e.fail("a request reusing outstanding tag %d was dispatched to the handler", m.Tag)}
				}
				e.classes["duptag"] = true
				continue
			}
			if m.Kind == refwire.Tflush {
				continue // flushes are only sent by flush steps and as duplicate-tag requests
			}
			// pick the tag
			reused := false
			if st.Reuse {
				for _, old := range e.reqs {
					if old.flushAcked && old.inv != nil && !old.released && e.byTag[old.tag] == nil {
						m.Tag = old.tag
						reused = true
						e.classes["reuse_while_running"] = true
						break
					}
				}
			}
			if !reused {
				m.Tag = e.freeTag(st.TagSel)
			}
			r.tag = m.Tag
			e.nextMark += 2
			r.marker = e.nextMark
			if st.Honour {
				r.marker |= 1
			}
			r.hasMark = SetMarker(&m, r.marker)
			if !r.hasMark {
				// marker-less kinds can only be matched by order: needs a quiet handler
				if pending {
					if err := e.barrier(); err != nil {
						return harn.Result{Err: err}
					}
					pending = false
				}
				st.NoWait = false
			} else {
				e.byMarker[r.marker] = r
			}
			sent := refwire.Canon(&m)
			sent.Tag = 0
			if sent.Kind == refwire.Tread && int64(sent.Count) > int64(e.msize)-11 {
				sent.Count = e.msize - 11
			}
			r.sent = sent
			r.invFrom = h.Count()
			r.needInvoke = true
			e.reqs = append(e.reqs, r)
			e.byTag[r.tag] = r
			e.dispatched++
			e.tracef("send %s tag %d marker %#x", refwire.KindName[m.Kind], m.Tag, r.marker)
			if err := e.p.Send(&m); err != nil {
				return harn.Fail("HARNESS send: %v", err)
			}
			pending = true
		case "complete":
			park := e.parked()
			if len(park) == 0 {
				continue
			}
			r := park[st.Which%len(park)]
			if st.ResMsg == nil && st.ErrText == "" {
				st.ErrText = "x"
			}
			if st.Oversize && r.flushAcked && e.msize <= 65536 {
				// the flushed request's handler returns, late, a result that could not even be
				// sent (an Rread with msize bytes of data): it must vanish like any other
				st.ResMsg, st.ErrText = &refwire.Msg{Kind: refwire.Rread, Blob: harn.Blob{N: int(e.msize), K: 7}}, ""
				e.classes["late_oversize_completion_after_flush"] = true
			}
			e.release(r, st)
			if r.flushAcked {
				r.lateReleased = true
				e.classes["late_completion_after_flush"] = true
				e.tracef("release flushed handler marker %#x (late)", r.marker)
			} else {
				r.needReply = true
				e.tracef("release handler marker %#x with %s", r.marker, brief(r.result))
			}
			pending = true
		case "flush":
			if !flushProperty {
				continue
			}
			if pending && st.Target != "inflight" {
				if err := e.barrier(); err != nil {
					return harn.Result{Err: err}
				}
				pending = false
			}
			fr := &req{isFlush: true}
			var oldtag uint16
			switch st.Target {
			case "parked", "inflight":
				var cands []*req
				for _, r := range e.reqs {
					if r.isFlush || r.flushSent || r.replied {
						continue
					}
					if st.Target == "parked" && r.inv != nil && !r.released {
						cands = append(cands, r)
					}
					if st.Target == "inflight" && r.inv == nil && r.needInvoke {
						cands = append(cands, r)
					}
				}
				if len(cands) == 0 {
					continue
				}
				fr.target = cands[st.Which%len(cands)]
				oldtag = fr.target.tag
			case "answered":
				var cands []*req
				for _, r := range e.reqs {
					if !r.isFlush && r.replied && !r.flushSent && e.byTag[r.tag] == nil {
						cands = append(cands, r)
					}
				}
				if len(cands) == 0 {
					continue
				}
				oldtag = cands[st.Which%len(cands)].tag
				e.classes["flush_answered"] = true
			default: // unused
				oldtag = e.freeTag(st.TagSel + 5)
				e.classes["flush_unused"] = true
			}
			e.flushTags++
			fr.tag = 0x4000 + e.flushTags
			e.reqs = append(e.reqs, fr)
			e.byTag[fr.tag] = fr
			t := fr.target
			if t != nil {
				t.flushSent = true
				t.parkedAtFlush = t.inv != nil && !t.released
				if st.Release == "before" && t.inv != nil && !t.released {
					e.release(t, defaultResult())
					t.parkedAtFlush = false
					e.classes["release_just_before_flush"] = true
				}
			}
			e.tracef("flush tag %d (%s, release %q)", oldtag, st.Target, st.Release)
			if err := e.p.Send(&refwire.Msg{Kind: refwire.Tflush, Tag: fr.tag, Oldtag: oldtag}); err != nil {
				return harn.Fail("HARNESS send: %v", err)
			}
			if t != nil && st.Release == "after" && t.inv != nil && !t.released {
				e.release(t, defaultResult())
				t.parkedAtFlush = false
				e.classes["release_just_after_flush"] = true
			}
			if t != nil && st.Target == "inflight" {
				e.classes["flush_before_handler_start"] = true
			}
			// wait for the acknowledgement
			if err := e.barrier(); err != nil {
				return harn.Result{Err: err}
			}
			pending = false
			if t != nil && t.parkedAtFlush {
				e.classes["flush_parked_handler"] = true
				// (i) the flushed handler's context is cancelled
				select {
				case <-t.inv.Ctx.Done():
				case <-time.After(waitBound):
					return harn.Result{Err: e.fail("flush of tag %d was acknowledged but the handler's context is not cancelled after %v", t.tag, waitBound)}
				}
			}
			if t != nil && t.inv == nil {
				// flushed before the harness saw the handler start: it still starts (requests are dispatched in order)
				t.needInvoke = true
			}
		}
		if !st.NoWait && pending {
			if err := e.barrier(); err != nil {
				return harn.Result{Err: err}
			}
			pending = false
		} else if st.NoWait {
			e.classes["pipelined"] = true
		}
	}
	if err := e.barrier(); err != nil {
		return harn.Result{Err: err}
	}
	// out-of-order completion?
	// finish: every request that was not flushed gets its reply
	for _, r := range e.parked() {
		if r.flushAcked {
			e.release(r, defaultResult())
			r.lateReleased = true
			continue
		}
		e.release(r, defaultResult())
		r.needReply = true
	}
	if err := e.barrier(); err != nil {
		return harn.Result{Err: err}
	}
	// give stray frames (a late reply to a flushed request, a duplicate) a chance to show up:
	// one more round trip through the server, then a short quiet period
	if err := e.roundTrip(); err != nil {
		return harn.Result{Err: err}
	}
	for _, r := range e.reqs {
		if r.lateReleased {
			select {
			case <-r.inv.Returned:
			case <-time.After(waitBound):
			}
		}
	}
	time.Sleep(2 * time.Millisecond)
	if _, err := e.pump(func() bool { return e.p.Pending() == 0 }, 50*time.Millisecond); err != nil {
		return harn.Result{Err: err}
	}
	if n := h.Count(); n != e.dispatched {
		return harn.Result{Err: e.fail("handler was invoked %d times for %d dispatched requests", n, e.dispatched)}
	}
	seen := map[uint32]int{}
	for _, inv := range h.All() {
		if mk, ok := GetMarker(inv.Msg); ok {
			seen[mk]++
			if seen[mk] > 1 {
				return harn.Result{Err: e.fail("handler invoked twice for the request with marker %#x", mk)}
			}
		}
	}
	for k := range e.classes {
		res.Classes = append(res.Classes, k)
	}
	if c.Rendezvous {
		res.Classes = append(res.Classes, "rendezvous")
	} else {
		res.Classes = append(res.Classes, "buffered")
	}
	if flushProperty {
		res.NonTrivial = e.classes["late_completion_after_flush"] || e.classes["release_just_after_flush"] || e.classes["flush_parked_handler"]
	} else {
		res.NonTrivial = e.classes["duptag"] || e.outOfOrder()
		if e.outOfOrder() {
			res.Classes = append(res.Classes, "out_of_order_completion")
		}
	}
	return res
}

// outOfOrder: ≥2 handlers were in flight and completed in an order different from arrival.
func (e *engine) outOfOrder() bool {
	// requests in arrival order; a request released while an earlier one is still parked
	for i, r := range e.reqs {
		if r.isFlush || r.inv == nil {
			continue
		}
		for _, q := range e.reqs[:i] {
			if q.isFlush || q.inv == nil {
				continue
			}
			if q.relOrder > r.relOrder && r.relOrder > 0 {
				return true
			}
		}
	}
	return false
}
