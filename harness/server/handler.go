// Package server decides C06 (each request answered exactly once with its own
// tag and result), C07 (flush semantics) and C11 (shutdown) against the real
// p9p.ServeConn, with a scripted Handler on one side and a scripted raw 9P
// client (reference codec) on the other.
package server

import (
	"context"
	"encoding/binary"
	"errors"
	"fmt"
	"sync"
	"time"

	p9p "github.com/frobnitzem/go-p9p"

	"verifharness/internal/gen"
	"verifharness/internal/harn"
	"verifharness/internal/refwire"
)

// Marker placement: a 32-bit value unique per request, stored in a field of
// the message so that handler invocations and replies can be attributed
// independently of their tag.  Bit 0 of a request marker = "this handler
// honours cancellation".
func SetMarker(m *refwire.Msg, v uint32) bool {
	switch m.Kind {
	case refwire.Tattach, refwire.Twalk, refwire.Topen, refwire.Tcreate, refwire.Tread, refwire.Twrite, refwire.Tclunk, refwire.Tremove, refwire.Tstat, refwire.Twstat:
		m.Fid = v
	case refwire.Tauth:
		m.Afid = v
	case refwire.Tversion, refwire.Rversion:
		m.MSize = v
	case refwire.Rwrite:
		m.Count = v
	case refwire.Ropen, refwire.Rcreate:
		m.IOUnit = v
	case refwire.Rauth, refwire.Rattach:
		m.Qid.Version = v
	case refwire.Rread:
		d := make([]byte, 4, 4+len(m.Payload()))
		binary.LittleEndian.PutUint32(d, v)
		m.Data, m.Blob = append(d, m.Payload()...), harn.Blob{}
	case refwire.Rerror:
		m.Ename = harn.B(fmt.Sprintf("E%08x:%s", v, string(m.Ename)))
	case refwire.Rwalk:
		if len(m.Qids) == 0 {
			m.Qids = []refwire.Q{{}}
		}
		m.Qids[0].Version = v
	case refwire.Rstat:
		m.Stat.Dev = v
	default:
		return false
	}
	return true
}

func GetMarker(m *refwire.Msg) (uint32, bool) {
	switch m.Kind {
	case refwire.Tattach, refwire.Twalk, refwire.Topen, refwire.Tcreate, refwire.Tread, refwire.Twrite, refwire.Tclunk, refwire.Tremove, refwire.Tstat, refwire.Twstat:
		return m.Fid, true
	case refwire.Tauth:
		return m.Afid, true
	case refwire.Tversion, refwire.Rversion:
		return m.MSize, true
	case refwire.Rwrite:
		return m.Count, true
	case refwire.Ropen, refwire.Rcreate:
		return m.IOUnit, true
	case refwire.Rauth, refwire.Rattach:
		return m.Qid.Version, true
	case refwire.Rread:
		p := m.Payload()
		if len(p) >= 4 {
			return binary.LittleEndian.Uint32(p), true
		}
	case refwire.Rerror:
		var v uint32
		if len(m.Ename) >= 10 && m.Ename[0] == 'E' && m.Ename[9] == ':' {
			if _, err := fmt.Sscanf(string(m.Ename[1:9]), "%08x", &v); err == nil {
				return v, true
			}
		}
	case refwire.Rwalk:
		if len(m.Qids) > 0 {
			return m.Qids[0].Version, true
		}
	case refwire.Rstat:
		return m.Stat.Dev, true
	}
	return 0, false
}

// Outcome is what a scripted handler returns when released.
type Outcome struct {
	Msg     *refwire.Msg // reply message (R-kind), or nil
	ErrText string       // if Msg == nil: the error text
	Plain   bool         // return errors.New(text) instead of MessageRerror{text}
	// ErrKind selects special error values a handler may legitimately return
	// ("" = per Plain): "canceled" / "deadline" = the context package's own
	// errors (e.g. from the handler's internal timeout, the request not being
	// flushed), "wrap9p" = a 9P error wrapped with fmt.Errorf("%s: %w").
	// In every case the reply must carry the error's full text.
	ErrKind string
	// Both: the handler returns its reply message *and* an error (`return resp, err`): the error is the result
	Both bool
}

// ErrorOf builds the error value described by o and the text its reply must carry.
func ErrorOf(o Outcome) (error, string) {
	switch o.ErrKind {
	case "canceled":
		return context.Canceled, context.Canceled.Error()
	case "deadline":
		return context.DeadlineExceeded, context.DeadlineExceeded.Error()
	case "wrap9p":
		err := fmt.Errorf("%s: %w", o.ErrText, p9p.MessageRerror{Ename: "file not found"})
		return err, err.Error()
	}
	if o.Plain {
		return errors.New(o.ErrText), o.ErrText
	}
	return p9p.MessageRerror{Ename: o.ErrText}, o.ErrText
}

type Invocation struct {
	Seq       int
	Msg       *refwire.Msg // what the handler was called with (Tag always 0)
	Ctx       context.Context
	Honour    bool
	release   chan Outcome
	Returned  chan struct{}
	ViaCancel bool
}

// Handler is a scripted p9p.Handler: every Handle call is recorded and parks
// until the harness releases it (or, if it honours cancellation, until its
// context is done).
type Handler struct {
	mu    sync.Mutex
	cond  *sync.Cond
	invs  []*Invocation
	stops []error
	// HonourFn decides whether an invocation returns on ctx.Done()
	HonourFn func(m *refwire.Msg) bool
}

func NewHandler() *Handler {
	h := &Handler{}
	h.cond = sync.NewCond(&h.mu)
	return h
}

func (h *Handler) Handle(ctx context.Context, msg p9p.Message) (p9p.Message, error) {
	m, err := gen.FromMessage(uint8(msg.Type()), 0, msg)
	if err != nil {
		m = &refwire.Msg{Kind: uint8(msg.Type())}
	}
	inv := &Invocation{Msg: m, Ctx: ctx, release: make(chan Outcome, 1), Returned: make(chan struct{})}
	h.mu.Lock()
	inv.Seq = len(h.invs)
	if h.HonourFn != nil {
		inv.Honour = h.HonourFn(m)
	}
	h.invs = append(h.invs, inv)
	h.cond.Broadcast()
	h.mu.Unlock()
	defer close(inv.Returned)
	var out Outcome
	if inv.Honour {
		select {
		case out = <-inv.release:
		case <-ctx.Done():
			inv.ViaCancel = true
			return nil, ctx.Err()
		}
	} else {
		out = <-inv.release
	}
	if out.Msg != nil && !out.Both {
		return gen.ToMessage(out.Msg, 0), nil
	}
	err, _ = ErrorOf(out)
	if out.Both && out.Msg != nil {
		return gen.ToMessage(out.Msg, 0), err
	}
	return nil, err
}

func (h *Handler) Stop(err error) error {
	h.mu.Lock()
	h.stops = append(h.stops, err)
	h.cond.Broadcast()
	h.mu.Unlock()
	return err
}

func (h *Handler) Stops() int {
	h.mu.Lock()
	defer h.mu.Unlock()
	return len(h.stops)
}

func (h *Handler) Count() int {
	h.mu.Lock()
	defer h.mu.Unlock()
	return len(h.invs)
}

func (h *Handler) All() []*Invocation {
	h.mu.Lock()
	defer h.mu.Unlock()
	return append([]*Invocation(nil), h.invs...)
}

// WaitFor waits until an invocation satisfying pred exists among those with Seq ≥ from.
func (h *Handler) WaitFor(from int, pred func(*Invocation) bool, d time.Duration) *Invocation {
	deadline := time.Now().Add(d)
	h.mu.Lock()
	defer h.mu.Unlock()
	for {
		for _, inv := range h.invs[min(from, len(h.invs)):] {
			if pred(inv) {
				return inv
			}
		}
		left := time.Until(deadline)
		if left <= 0 {
			return nil
		}
		t := time.AfterFunc(left, func() { h.mu.Lock(); h.cond.Broadcast(); h.mu.Unlock() })
		h.cond.Wait()
		t.Stop()
	}
}

func (inv *Invocation) Release(o Outcome) {
	select {
	case inv.release <- o:
	default:
	}
}

func min(a, b int) int {
	if a < b {
		return a
	}
	return b
}
