package server

// C07, "a later request that reuses the freed tag receives its own reply and never the flushed
// request's" — also when tens of thousands of requests were served in between (anything the
// server numbers requests with may have wrapped around by then).

import (
	"context"
	"fmt"
	"time"

	p9p "github.com/frobnitzem/go-p9p"
	"pgregory.net/rapid"

	"verifharness/internal/harn"
	"verifharness/internal/memconn"
	"verifharness/internal/peer"
	"verifharness/internal/refwire"
)

type WrapCase struct {
	Tags    int // flushed requests whose handlers keep running (tags 5, 6, ...)
	Between int // requests served between the last of them and the first reuse of a tag
}

func GenWrap(t *rapid.T) WrapCase {
	c := WrapCase{Tags: 8}
	// the reuse of the k-th tag is exactly 65536 requests after the k-th flushed request
	c.Between = 65536 - c.Tags + rapid.SampledFrom([]int{0, 0, 0, -1, 1}).Draw(t, "delta")
	return c
}

func RunWrap(c WrapCase) harn.Result {
	a, b := memconn.NewPair(memconn.Options{})
	h := NewHandler() // no HonourFn: handlers ignore cancellation and run until released
	ctx, cancel := context.WithCancel(context.Background())
	go p9p.ServeConn(ctx, b, h)
	defer func() {
		for _, inv := range h.All() {
			select {
			case inv.release <- Outcome{ErrText: "teardown"}:
			default:
			}
		}
		cancel()
		a.Close()
		b.Close()
	}()
	p := peer.New(a)
	if _, err := p.Handshake(8192, waitBound); err != nil {
		return harn.Fail("handshake failed: %v", err)
	}
	next := func(what string) (*refwire.Msg, error) {
		f, ok, err := p.Next(waitBound)
		if !ok || f.Msg == nil {
			return nil, fmt.Errorf("no reply (%s): %v", what, err)
		}
		return f.Msg, nil
	}
	const oldBase, newBase = 0x0A000000, 0x0B000000
	// 1. the requests that will be flushed
	var olds []*Invocation
	for k := 0; k < c.Tags; k++ {
		before := h.Count()
		p.Send(&refwire.Msg{Kind: refwire.Twrite, Tag: uint16(5 + k), Fid: uint32(oldBase + k), Data: harn.B("old")})
		inv := h.WaitFor(before, func(i *Invocation) bool { return i.Msg.Fid == uint32(oldBase+k) }, waitBound)
		if inv == nil {
			return harn.Fail("request %d did not reach the handler", k)
		}
		olds = append(olds, inv)
	}
	for k := 0; k < c.Tags; k++ {
		p.Send(&refwire.Msg{Kind: refwire.Tflush, Tag: 0x4000, Oldtag: uint16(5 + k)})
		m, err := next("flush")
		if err != nil || m.Kind != refwire.Rflush || m.Tag != 0x4000 {
			return harn.Fail("flush of tag %d: got %v, %v", 5+k, m, err)
		}
	}
	// 2. many requests in between
	for i := 0; i < c.Between; i++ {
		before := h.Count()
		p.Send(&refwire.Msg{Kind: refwire.Tclunk, Tag: 100, Fid: uint32(i)})
		inv := h.WaitFor(before, func(x *Invocation) bool { return x.Msg.Kind == refwire.Tclunk }, waitBound)
		if inv == nil {
			return harn.Fail("request #%d in between did not reach the handler", i)
		}
		inv.release <- Outcome{Msg: &refwire.Msg{Kind: refwire.Rclunk}}
		m, err := next("in between")
		if err != nil || m.Kind != refwire.Rclunk || m.Tag != 100 {
			return harn.Fail("request #%d in between: got %v, %v", i, m, err)
		}
	}
	// 3. the tags are reused; then the old handlers return, late
	var news []*Invocation
	for k := 0; k < c.Tags; k++ {
		before := h.Count()
		p.Send(&refwire.Msg{Kind: refwire.Twrite, Tag: uint16(5 + k), Fid: uint32(newBase + k), Data: harn.B("new")})
		inv := h.WaitFor(before, func(i *Invocation) bool { return i.Msg.Fid == uint32(newBase+k) }, waitBound)
		if inv == nil {
			return harn.Fail("the request reusing tag %d (freed by a flush, %d requests ago) did not reach the handler", 5+k, c.Between+c.Tags)
		}
		news = append(news, inv)
	}
	for k, inv := range olds {
		inv.release <- Outcome{Msg: &refwire.Msg{Kind: refwire.Rwrite, Count: uint32(oldBase + k)}}
	}
	for _, inv := range olds {
		select {
		case <-inv.Returned:
		case <-time.After(waitBound):
		}
	}
	time.Sleep(5 * time.Millisecond)
	for k, inv := range news {
		inv.release <- Outcome{Msg: &refwire.Msg{Kind: refwire.Rwrite, Count: uint32(newBase + k)}}
	}
	got := map[uint16]uint32{}
	for len(got) < c.Tags {
		m, err := next("reply to a request that reused a flushed tag")
		if err != nil {
			return harn.Fail("%d of %d requests reusing flushed tags got a reply, then: %v", len(got), c.Tags, err)
		}
		if m.Kind != refwire.Rwrite {
			return harn.Fail("unexpected %s on tag %d", refwire.KindName[m.Kind], m.Tag)
		}
		if m.Count >= oldBase && m.Count < newBase {
			return harn.Fail("the result of the flushed request on tag %d (flush acknowledged %d requests ago) was sent on tag %d", 5+int(m.Count-oldBase), c.Between+c.Tags, m.Tag)
		}
		if _, dup := got[m.Tag]; dup {
			return harn.Fail("two replies on tag %d", m.Tag)
		}
		if m.Count != uint32(newBase+int(m.Tag)-5) {
			return harn.Fail("tag %d got the result %#x, its own request's result is %#x", m.Tag, m.Count, newBase+int(m.Tag)-5)
		}
		got[m.Tag] = m.Count
	}
	if f, ok, _ := p.Next(20 * time.Millisecond); ok {
		return harn.Fail("extra frame after all replies: %v", f.Msg)
	}
	return harn.Result{NonTrivial: true, Classes: []string{"tag_reused_65536_requests_after_flush"}}
}
