package server

import (
	"context"
	"errors"
	"fmt"
	"strings"
	"sync"
	"sync/atomic"
	"time"

	p9p "github.com/frobnitzem/go-p9p"
	"pgregory.net/rapid"

	"verifharness/internal/harn"
	"verifharness/internal/memconn"
	"verifharness/internal/mockfs"
	"verifharness/internal/peer"
	"verifharness/internal/refwire"
)

// FlightOp is one request that is in flight (parked inside the file system,
// holding its fid's lock) when the fault strikes.
type FlightOp struct {
	Kind     string // walk clone attach open opendir create read write stat wstat clunk remove
	Late     bool   // its file-system call returns only after Stop has been entered (else: as soon as its context is cancelled)
	Complete bool   // not parked: it completes normally, in a burst right before the fault
	// FailOp: when its parked file-system call is let go, it fails with the context's error, as
	// a real file system does when cancelled: "all" = every call of the request, "clunk" = only
	// a Clunk the session issues inside the request (the old entry of a walk in place)
	FailOp string `json:",omitempty"`
	// Shared (read, write, stat, wstat): the request uses the one shared open fid instead of a
	// fid of its own, so that several requests queue behind the same fid lock
	Shared bool `json:",omitempty"`
	// Held (with Shared): the handler goroutine of this request is slow: it reaches the
	// session only while Stop is inside the Clunk of the shared fid
	Held bool `json:",omitempty"`
}

type ShutCase struct {
	Rendezvous bool
	Flight     []FlightOp
	Fault      string // readerr | writeerr | peerclose | cancel
	Offset     int    // readerr: bytes of one more (partial) request frame delivered before the error; writeerr: bytes of further output allowed
	PauseReads bool   // the client stops reading replies before the burst (blocks the server's writer on a rendezvous connection)
	DupTag     int    // >0: that many further requests reuse the tag of a parked request right before the fault (each owed a duplicate-tag error the server may be unable to write)
	// ClunkWaits: the file system's Clunk honours its context: the clunks issued by Stop return
	// when that context is done (it is a cancelled context, so: at once)
	ClunkWaits bool `json:",omitempty"`
	// StopClunkFails: the Clunk calls that Stop issues report an error (the entry is released all the same)
	StopClunkFails bool `json:",omitempty"`
}

var flightKinds = []string{"walk", "clone", "attach", "open", "opendir", "create", "read", "write", "stat", "wstat", "clunk", "remove", "walkinplace", "walkinplace", "stat", "read"}

func GenShut(t *rapid.T) ShutCase {
	c := ShutCase{Rendezvous: rapid.Bool().Draw(t, "rendezvous")}
	n := rapid.IntRange(1, 6).Draw(t, "nflight")
	for i := 0; i < n; i++ {
		f := FlightOp{
			Kind:     rapid.SampledFrom(flightKinds).Draw(t, "kind"),
			Late:     rapid.Bool().Draw(t, "late"),
			Complete: rapid.IntRange(0, 2).Draw(t, "complete") == 0,
		}
		if !f.Complete {
			switch rapid.IntRange(0, 3).Draw(t, "failop") {
			case 0:
				f.FailOp = "all"
			case 1:
				if f.Kind == "walkinplace" {
					f.FailOp = "clunk"
				}
			}
		}
		switch f.Kind {
		case "read", "write", "stat", "wstat":
			f.Shared = rapid.Bool().Draw(t, "shared")
			if f.Shared && !f.Complete {
				f.Held = rapid.IntRange(0, 2).Draw(t, "held") == 0
			}
		}
		c.Flight = append(c.Flight, f)
	}
	c.Fault = rapid.SampledFrom([]string{"readerr", "writeerr", "peerclose", "cancel"}).Draw(t, "fault")
	c.Offset = rapid.IntRange(0, 30).Draw(t, "offset")
	c.PauseReads = rapid.IntRange(0, 2).Draw(t, "pause") == 0
	if rapid.IntRange(0, 3).Draw(t, "dup") == 0 {
		c.DupTag = rapid.IntRange(1, 3).Draw(t, "ndup")
	}
	c.ClunkWaits = rapid.IntRange(0, 2).Draw(t, "clunkwaits") == 0
	c.StopClunkFails = rapid.IntRange(0, 2).Draw(t, "stopclunkfails") == 0
	return c
}

type reqKey struct{}

type invRec struct {
	ctx  context.Context
	done int32
	key  uint32
}

// shutHandler wraps the real session handler: it tags each request's context,
// records it, and counts Stop calls.
type shutHandler struct {
	inner    p9p.Handler
	mu       sync.Mutex
	ctxs     []*invRec
	inflight int32
	stops    int32
	stopSeen chan struct{}
	once     sync.Once
	nextIdx  int
	// requests with these tags... (keyed by the request's fid and kind) wait for gate before entering the session
	heldKinds map[string]bool
	gate      chan struct{}
	passed    int32
}

func (h *shutHandler) Handle(ctx context.Context, msg p9p.Message) (p9p.Message, error) {
	atomic.AddInt32(&h.inflight, 1)
	defer atomic.AddInt32(&h.inflight, -1)
	rec := &invRec{ctx: ctx}
	defer atomic.StoreInt32(&rec.done, 1)
	// tag the context with the request's own fid so the file-system hook can tell requests apart
	var key uint32
	switch m := msg.(type) {
	case p9p.MessageTattach:
		key = uint32(m.Fid)
	case p9p.MessageTwalk:
		key = uint32(m.Newfid)
	case p9p.MessageTopen:
		key = uint32(m.Fid)
	case p9p.MessageTcreate:
		key = uint32(m.Fid)
	case p9p.MessageTread:
		key = uint32(m.Fid)
	case p9p.MessageTwrite:
		key = uint32(m.Fid)
	case p9p.MessageTstat:
		key = uint32(m.Fid)
	case p9p.MessageTwstat:
		key = uint32(m.Fid)
	case p9p.MessageTclunk:
		key = uint32(m.Fid)
	case p9p.MessageTremove:
		key = uint32(m.Fid)
	}
	rec.key = key
	h.mu.Lock()
	h.ctxs = append(h.ctxs, rec)
	held := h.heldKinds != nil && key == sharedFid && h.heldKinds[fmt.Sprintf("%T", msg)]
	h.mu.Unlock()
	if held {
		select {
		case <-h.gate:
		case <-time.After(3 * shutBound):
		}
		atomic.AddInt32(&h.passed, 1)
	}
	return h.inner.Handle(context.WithValue(ctx, reqKey{}, key), msg)
}

func (h *shutHandler) Stop(err error) error {
	atomic.AddInt32(&h.stops, 1)
	h.once.Do(func() { close(h.stopSeen) })
	return h.inner.Stop(err)
}

const shutBound = 10 * time.Second

const sharedFid = 50

// RunShut is the C11 oracle for one fault scenario.
func RunShut(c ShutCase) harn.Result {
	fs := mockfs.New()
	fs.Populate()
	sess := p9p.SFileSys(fs)
	h := &shutHandler{inner: p9p.SSession(sess), stopSeen: make(chan struct{}), gate: make(chan struct{})}
	nHeld := 0
	for _, f := range c.Flight {
		if f.Held && f.Shared && !f.Complete {
			if h.heldKinds == nil {
				h.heldKinds = map[string]bool{}
			}
			k := map[string]string{"read": "p9p.MessageTread", "write": "p9p.MessageTwrite", "stat": "p9p.MessageTstat", "wstat": "p9p.MessageTwstat"}[f.Kind]
			if !h.heldKinds[k] {
				nHeld++
			}
			h.heldKinds[k] = true
		}
	}
	var gateOnce sync.Once
	var sharedHandle int32 // id of the mock handle bound to the shared fid
	a, b := memconn.NewPair(memconn.Options{Rendezvous: c.Rendezvous})
	ctx, cancel := context.WithCancel(context.Background())
	defer cancel()
	served := make(chan error, 1)
	go func() { served <- p9p.ServeConn(ctx, b, h) }()
	p := peer.New(a)
	defer a.Close()
	defer b.Close()

	var phase int32 // 0: prefix (no gates), 1: in flight (gates active)
	var parkedNow int32
	passFids := map[uint32]bool{} // fids whose operations complete normally (burst)
	var pfMu sync.Mutex
	lateFids := map[uint32]bool{}
	failOps := map[uint32]string{}
	fs.Hook = func(call *mockfs.Call) *mockfs.Fault {
		if atomic.LoadInt32(&phase) == 0 || call.Ctx == nil {
			return nil
		}
		if _, ok := call.Ctx.(p9p.CancelledCtxt); ok {
			// Stop's own clunks.
			if c.ClunkWaits {
				select {
				case <-call.Ctx.Done():
				case <-time.After(3 * shutBound):
				}
			}
			// If slow handlers are waiting for it: let them run into the
			// shared fid's lock now, while Stop is inside this fid's Clunk
			if nHeld > 0 && call.Op == "clunk" && call.Handle != nil && int32(call.Handle.ID) == atomic.LoadInt32(&sharedHandle) {
				gateOnce.Do(func() { close(h.gate) })
				for i := 0; i < 500 && int(atomic.LoadInt32(&h.passed)) < nHeld; i++ {
					time.Sleep(100 * time.Microsecond)
				}
				time.Sleep(2 * time.Millisecond)
			}
			if c.StopClunkFails && call.Op == "clunk" {
				return &mockfs.Fault{Err: mockfs.ErrInjected}
			}
			return nil
		}
		fid, _ := call.Ctx.Value(reqKey{}).(uint32)
		pfMu.Lock()
		pass, late, failOp := passFids[fid], lateFids[fid], failOps[fid]
		pfMu.Unlock()
		if pass {
			return nil
		}
		atomic.AddInt32(&parkedNow, 1)
		defer atomic.AddInt32(&parkedNow, -1)
		select {
		case <-call.Ctx.Done():
		case <-time.After(3 * shutBound):
		}
		if late {
			select {
			case <-h.stopSeen:
			case <-time.After(3 * shutBound):
			}
		}
		if failOp == "all" || (failOp != "" && failOp == call.Op) {
			err := call.Ctx.Err()
			if err == nil {
				err = mockfs.ErrInjected
			}
			return &mockfs.Fault{Err: err}
		}
		return nil
	}
	res := harn.Result{}
	fail := func(format string, a ...any) harn.Result {
		return harn.Fail("%s [fault %s offset %d, rendezvous=%v pause=%v duptag=%d, in flight: %s]", fmt.Sprintf(format, a...), c.Fault, c.Offset, c.Rendezvous, c.PauseReads, c.DupTag, describeFlight(c.Flight))
	}

	if _, err := p.Handshake(8192, shutBound); err != nil {
		return fail("handshake failed: %v", err)
	}
	// prefix: bind a few fids.  fid 0 root, 1 /a, 2 /a/x (open rdwr), 3 /f, 4 /e, 5 /a/d
	tag := uint16(0)
	rt := func(m refwire.Msg) error {
		tag++
		m.Tag = tag
		if err := p.Send(&m); err != nil {
			return err
		}
		f, ok, err := p.Next(shutBound)
		if !ok {
			return fmt.Errorf("no reply to %s: %v", refwire.KindName[m.Kind], err)
		}
		if f.Msg == nil || f.Msg.Kind == refwire.Rerror {
			return fmt.Errorf("prefix %s failed: %v", refwire.KindName[m.Kind], f.Msg)
		}
		return nil
	}
	B := func(s ...string) []harn.B {
		var out []harn.B
		for _, x := range s {
			out = append(out, harn.B(x))
		}
		return out
	}
	prefix := []refwire.Msg{
		{Kind: refwire.Tattach, Fid: 0, Afid: ^uint32(0), Uname: harn.B("u")},
		{Kind: refwire.Twalk, Fid: 0, Newfid: 1, Wnames: B("a")},
		{Kind: refwire.Twalk, Fid: 0, Newfid: sharedFid, Wnames: B("a", "x")},
		{Kind: refwire.Topen, Fid: sharedFid, Mode: 2},
	}
	// in-flight requests.  Each has a fid of its own (its key) so that the hook
	// can tell them apart; walks and clones share their source fid on purpose
	// (the second one queues behind the first one's fid lock).
	var reqs []refwire.Msg
	var keys []uint32
	for i, f := range c.Flight {
		nf := uint32(100 + i)
		own := uint32(200 + i)
		bind := func(path ...string) {
			prefix = append(prefix, refwire.Msg{Kind: refwire.Twalk, Fid: 0, Newfid: own, Wnames: B(path...)})
		}
		var m refwire.Msg
		key := own
		if f.Shared {
			switch f.Kind {
			case "read":
				m = refwire.Msg{Kind: refwire.Tread, Fid: sharedFid, Count: 16}
			case "write":
				m = refwire.Msg{Kind: refwire.Twrite, Fid: sharedFid, Data: harn.B("w")}
			case "stat":
				m = refwire.Msg{Kind: refwire.Tstat, Fid: sharedFid}
			case "wstat":
				m = refwire.Msg{Kind: refwire.Twstat, Fid: sharedFid, Stat: refwire.D{Mode: 0600, Length: ^uint64(0), Atime: ^uint32(0), Mtime: ^uint32(0)}}
			}
			m.Tag = uint16(0x100 + i)
			reqs = append(reqs, m)
			keys = append(keys, sharedFid)
			continue
		}
		switch f.Kind {
		case "walkinplace":
			bind("a")
			m = refwire.Msg{Kind: refwire.Twalk, Fid: own, Newfid: own, Wnames: B("d")}
		case "walk":
			m, key = refwire.Msg{Kind: refwire.Twalk, Fid: 1, Newfid: nf, Wnames: B("d")}, nf
		case "clone":
			m, key = refwire.Msg{Kind: refwire.Twalk, Fid: 0, Newfid: nf}, nf
		case "attach":
			m, key = refwire.Msg{Kind: refwire.Tattach, Fid: nf, Afid: ^uint32(0), Uname: harn.B("u")}, nf
		case "open":
			bind("f")
			m = refwire.Msg{Kind: refwire.Topen, Fid: own, Mode: 0}
		case "opendir":
			bind("a", "d")
			m = refwire.Msg{Kind: refwire.Topen, Fid: own, Mode: 0}
		case "create":
			bind("e")
			m = refwire.Msg{Kind: refwire.Tcreate, Fid: own, Name: harn.B(fmt.Sprintf("n%d", i)), Perm: 0644, Mode: 1}
		case "read":
			bind("a", "x")
			prefix = append(prefix, refwire.Msg{Kind: refwire.Topen, Fid: own, Mode: 2})
			m = refwire.Msg{Kind: refwire.Tread, Fid: own, Count: 16}
		case "write":
			bind("a", "x")
			prefix = append(prefix, refwire.Msg{Kind: refwire.Topen, Fid: own, Mode: 2})
			m = refwire.Msg{Kind: refwire.Twrite, Fid: own, Data: harn.B("w")}
		case "stat":
			bind("a", "d", "y")
			m = refwire.Msg{Kind: refwire.Tstat, Fid: own}
		case "wstat":
			bind("a", "d", "y")
			m = refwire.Msg{Kind: refwire.Twstat, Fid: own, Stat: refwire.D{Mode: 0600, Length: ^uint64(0), Atime: ^uint32(0), Mtime: ^uint32(0)}}
		case "clunk":
			bind("f")
			m = refwire.Msg{Kind: refwire.Tclunk, Fid: own}
		case "remove":
			bind("a", "d", "y")
			m = refwire.Msg{Kind: refwire.Tremove, Fid: own}
		}
		m.Tag = uint16(0x100 + i)
		reqs = append(reqs, m)
		keys = append(keys, key)
	}
	for _, m := range prefix {
		if err := rt(m); err != nil {
			return fail("HARNESS prefix: %v", err)
		}
	}
	if tab, ok := p9p.VerifFidTable(sess); ok {
		for _, te := range tab {
			if uint32(te.Fid) == sharedFid {
				if hh, ok := te.Ent.(*mockfs.Handle); ok {
					atomic.StoreInt32(&sharedHandle, int32(hh.ID))
				}
			}
		}
	}
	atomic.StoreInt32(&phase, 1)

	// which fids pass / are late: decided per request through the request's context value
	// (the tagging handler stores the index of the request)
	// a client that stops reading replies back-pressures the server until it no
	// longer reads requests either; a read error can then not be observed (and
	// is not a failure to shut down), so this is only combined with faults
	// that strike regardless of what the server is doing.
	pause := c.PauseReads && c.Fault != "readerr"
	if pause {
		p.Pause()
	}
	// parked ones first, then the burst of completing ones
	sentParked := 0
	for i, m := range reqs {
		if c.Flight[i].Complete {
			continue
		}
		pfMu.Lock()
		lateFids[keys[i]] = c.Flight[i].Late
		if c.Flight[i].FailOp != "" {
			failOps[keys[i]] = c.Flight[i].FailOp
		}
		pfMu.Unlock()
		mm := m
		if err := p.Send(&mm); err != nil {
			return fail("HARNESS send: %v", err)
		}
		sentParked++
	}
	// wait until the parked requests have reached the file system (or are queued behind a fid lock)
	deadline := time.Now().Add(2 * time.Second)
	for int(atomic.LoadInt32(&h.inflight)) < sentParked && time.Now().Before(deadline) {
		time.Sleep(100 * time.Microsecond)
	}
	time.Sleep(300 * time.Microsecond)
	inFlightAtFault := int(atomic.LoadInt32(&h.inflight))
	burst := 0
	for i, m := range reqs {
		if !c.Flight[i].Complete {
			continue
		}
		pfMu.Lock()
		passFids[keys[i]] = true
		pfMu.Unlock()
		mm := m
		// a rendezvous write blocks until the server reads; do it asynchronously so the fault can race it
		go p.Send(&mm)
		burst++
	}
	if c.DupTag > 0 {
		// requests reusing the tag of a parked request: the server owes each a duplicate-tag error
		for i, m := range reqs {
			if c.Flight[i].Complete {
				continue
			}
			for k := 0; k < c.DupTag; k++ {
				dup := refwire.Msg{Kind: refwire.Tstat, Tag: m.Tag, Fid: 9999}
				go p.Send(&dup)
			}
			break
		}
	}
	if burst > 0 || c.DupTag > 0 {
		time.Sleep(time.Duration(c.Offset%4) * 100 * time.Microsecond)
	}

	// the fault
	var flying []*invRec
	h.mu.Lock()
	for _, r := range h.ctxs {
		// requests of the completing burst may finish normally before the fault takes
		// effect (their contexts are then not cancelled, legitimately): only the parked ones count
		pfMu.Lock()
		completing := passFids[r.key]
		pfMu.Unlock()
		if atomic.LoadInt32(&r.done) == 0 && !completing {
			flying = append(flying, r)
		}
	}
	h.mu.Unlock()
	var injected error = errors.New("injected connection failure")
	if c.Offset%2 == 1 {
		injected = memconn.ErrReset // a permanent failure that implements net.Error
	}
	switch c.Fault {
	case "readerr":
		// part of one more frame arrives, then the read fails
		extra := refwire.Frame(&refwire.Msg{Kind: refwire.Tstat, Tag: 0x999, Fid: 0})
		k := c.Offset % (len(extra) + 1)
		b.FailReadAt(b.NRead()+int64(b.Unread())+int64(k), injected)
		go a.Write(extra[:k])
		if k == 0 {
			b.FailReadNow(injected)
		}
	case "writeerr":
		if pause && c.Rendezvous {
			// the client is not reading: a write may already be blocked; the connection breaks under it
			b.FailWriteNow(injected)
		} else {
			b.FailWriteAt(b.NWritten()+int64(c.Offset), injected)
		}
		// make sure something is written: one more cheap request that completes
		// (an unbound fid: answered with an error without touching any fid lock)
		go func() {
			for i := 0; i < 4; i++ {
				p.Send(&refwire.Msg{Kind: refwire.Tstat, Tag: uint16(0x7f0 + i), Fid: 9999})
			}
		}()
	case "peerclose":
		a.Close()
	case "cancel":
		cancel()
	}

	// 1. serving returns within bounded time
	select {
	case <-served:
	case <-time.After(shutBound):
		return fail("ServeConn did not return within %v after the fault (%d handlers were in flight)", shutBound, inFlightAtFault)
	}
	// 2. every in-flight handler's context is cancelled
	for i, r := range flying {
		select {
		case <-r.ctx.Done():
		case <-time.After(shutBound):
			return fail("the context of in-flight handler %d (of %d) is not cancelled %v after serving returned", i, len(flying), shutBound)
		}
	}
	// 3. handlers return once cancelled
	deadline = time.Now().Add(shutBound)
	for atomic.LoadInt32(&h.inflight) > 0 {
		if time.Now().After(deadline) {
			return fail("%d handler(s) did not return within %v although their contexts are cancelled and the file system returned", atomic.LoadInt32(&h.inflight), shutBound)
		}
		time.Sleep(200 * time.Microsecond)
	}
	time.Sleep(500 * time.Microsecond)
	// 4. stop ran exactly once
	if n := atomic.LoadInt32(&h.stops); n != 1 {
		return fail("the stop callback ran %d times", n)
	}
	// 5. nothing remains bound, everything released exactly once
	tab, ok := p9p.VerifFidTable(sess)
	if !ok {
		return fail("HARNESS: no table")
	}
	for _, te := range tab {
		if te.Locked {
			return fail("fid %d is left locked after shutdown", te.Fid)
		}
		if te.HasEnt {
			id := -1
			if hh, ok := te.Ent.(*mockfs.Handle); ok {
				id = hh.ID
			}
			return fail("fid %d remains bound (handle %d) after stop and after all handlers returned", te.Fid, id)
		}
	}
	for _, hh := range fs.AllHandles() {
		if !hh.Counted {
			continue
		}
		if n := hh.ReleaseCount(); n != 1 {
			return fail("file-system entry handle %d (node %v, created by %s) has been released %d times after shutdown", hh.ID, nodeName(hh), origin(hh), n)
		}
	}
	for _, v := range fs.Violations() {
		if strings.Contains(v, "released twice") || strings.Contains(v, "after its release") {
			return fail("%s", v)
		}
	}
	res.NonTrivial = inFlightAtFault > 0
	res.Classes = append(res.Classes, "fault_"+c.Fault)
	for i, f := range c.Flight {
		_ = i
		if !f.Complete {
			if f.FailOp != "" {
				res.Classes = append(res.Classes, "fs_call_fails_when_cancelled")
			}
			if f.Shared {
				res.Classes = append(res.Classes, "inflight_on_shared_open_fid")
			}
			if f.Held && f.Shared && atomic.LoadInt32(&h.passed) > 0 {
				res.Classes = append(res.Classes, "slow_handler_meets_stop")
			}
			res.Classes = append(res.Classes, "inflight_"+f.Kind, c.Fault+"×"+f.Kind)
		} else {
			res.Classes = append(res.Classes, "completing_"+f.Kind)
		}
	}
	if c.DupTag > 0 {
		res.Classes = append(res.Classes, "duptag_in_flight")
	}
	if pause {
		res.Classes = append(res.Classes, "client_not_reading")
	}
	if c.ClunkWaits {
		res.Classes = append(res.Classes, "clunk_honours_stop_context")
	}
	if c.StopClunkFails {
		res.Classes = append(res.Classes, "stop_clunks_report_errors")
	}
	return res
}

func nodeName(h *mockfs.Handle) string {
	if h.Node == nil {
		return "<none>"
	}
	return h.Node.Name
}

func origin(h *mockfs.Handle) string {
	if h.Origin == nil {
		return "?"
	}
	return h.Origin.Op
}

func describeFlight(fl []FlightOp) string {
	var s []string
	for _, f := range fl {
		x := f.Kind
		if f.Complete {
			x += "(completing)"
		} else if f.Late {
			x += "(returns after stop)"
		}
		if f.FailOp != "" && !f.Complete {
			x += "(fs " + f.FailOp + " fails)"
		}
		if f.Shared {
			x += "(shared fid)"
		}
		if f.Held && f.Shared && !f.Complete {
			x += "(handler reaches the session during Stop)"
		}
		s = append(s, x)
	}
	return strings.Join(s, ",")
}
