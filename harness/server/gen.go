package server

import (
	"pgregory.net/rapid"
	"strings"

	"verifharness/internal/gen"
	"verifharness/internal/harn"
	"verifharness/internal/refwire"
)

var resultKinds = []uint8{refwire.Rwrite, refwire.Ropen, refwire.Rcreate, refwire.Rattach, refwire.Rauth, refwire.Rversion, refwire.Rread, refwire.Rerror, refwire.Rwalk, refwire.Rstat,
	refwire.Rclunk, refwire.Rflush, refwire.Rremove, refwire.Rwstat}

// markable result kinds only (C07 needs every reply attributable to its request)
var markedResultKinds = resultKinds[:10]

func genResult(t *rapid.T, kinds []uint8, st *Step) {
	if rapid.IntRange(0, 3).Draw(t, "iserr") == 0 {
		st.ErrText = rapid.SampledFrom([]string{"boom", "permission denied", "x", "file not found", "50% done, %s left %d", "100%", "duplicate tag", "unknown tag",
			strings.Repeat("long error text ", 8)[:127], strings.Repeat("long error text ", 9)[:128], strings.Repeat("a rather long explanation. ", 8), strings.Repeat("é", 70)}).Draw(t, "errtext")
		st.Plain = rapid.Bool().Draw(t, "plain")
		st.Both = rapid.IntRange(0, 3).Draw(t, "both") == 0
		if rapid.IntRange(0, 2).Draw(t, "special") == 0 {
			special := []string{"wrap9p"}
			if len(kinds) == len(resultKinds) {
				// C06 only: these texts carry no marker, and C07 needs every reply attributable
				special = []string{"canceled", "deadline", "wrap9p"}
			}
			st.ErrKind = rapid.SampledFrom(special).Draw(t, "errkind")
		}
		return
	}
	m := gen.MsgOfKind(rapid.SampledFrom(kinds).Draw(t, "reskind"), gen.Sizes{}).Draw(t, "res")
	gen.Shrink(&m, 24)
	st.ResMsg = &m
}

func genRequest(t *rapid.T, allKinds bool) refwire.Msg {
	var m refwire.Msg
	if allKinds && rapid.IntRange(0, 3).Draw(t, "anykind") == 0 {
		for {
			m = gen.AnyMsg(gen.Sizes{}).Draw(t, "req")
			if m.Kind != refwire.Tflush {
				break
			}
		}
	} else {
		k := rapid.SampledFrom([]uint8{refwire.Tattach, refwire.Twalk, refwire.Topen, refwire.Tcreate, refwire.Tread, refwire.Twrite, refwire.Tclunk, refwire.Tremove, refwire.Tstat, refwire.Twstat, refwire.Tauth, refwire.Tversion}).Draw(t, "tkind")
		m = gen.MsgOfKind(k, gen.Sizes{}).Draw(t, "req")
	}
	gen.Shrink(&m, 24)
	if m.Kind == refwire.Tread && rapid.Bool().Draw(t, "hugecount") {
		m.Count = rapid.SampledFrom([]uint32{0xFFFFFFFF, 1 << 20, 70000}).Draw(t, "count")
	}
	return m
}

func genMSize(t *rapid.T) uint32 {
	return rapid.SampledFrom([]uint32{400, 1024, 8192, 65536, 1 << 20}).Draw(t, "msize")
}

func maxSteps() int {
	if harn.Thorough() {
		return 50
	}
	return 30
}

func GenC06(t *rapid.T) ScriptCase {
	c := ScriptCase{MSize: genMSize(t), Rendezvous: rapid.Bool().Draw(t, "rendezvous")}
	step := rapid.Custom(func(t *rapid.T) Step {
		st := Step{Op: rapid.SampledFrom([]string{"send", "send", "send", "complete", "complete"}).Draw(t, "op")}
		st.NoWait = rapid.IntRange(0, 2).Draw(t, "nowait") == 0
		st.Which = rapid.IntRange(0, 7).Draw(t, "which")
		switch st.Op {
		case "send":
			st.Msg = genRequest(t, true)
			st.TagSel = rapid.IntRange(0, len(tagUniverse)-1).Draw(t, "tagsel")
			st.Dup = rapid.IntRange(0, 5).Draw(t, "dup") == 0
			if st.Dup && rapid.IntRange(0, 2).Draw(t, "dupflush") == 0 {
				st.Msg = refwire.Msg{Kind: refwire.Tflush}
			}
		case "complete":
			genResult(t, resultKinds, &st)
		}
		return st
	})
	minLen := rapid.IntRange(1, maxSteps()/2).Draw(t, "minlen")
	c.Steps = rapid.SliceOfN(step, minLen, maxSteps()).Draw(t, "steps")
	c.Burst = genBurst(t)
	addIdle(t, &c)
	if rapid.IntRange(0, 9).Draw(t, "temperr") == 0 {
		at := rapid.IntRange(0, len(c.Steps)).Draw(t, "temperrat")
		c.Steps = append(c.Steps[:at], append([]Step{{Op: "temperr"}}, c.Steps[at:]...)...)
	}
	return c
}

// one script in 25 contains a pause longer than the server's (scaled) 30 s read timeout
func addIdle(t *rapid.T, c *ScriptCase) {
	if rapid.IntRange(0, 24).Draw(t, "idle") != 0 {
		return
	}
	at := rapid.IntRange(0, len(c.Steps)).Draw(t, "idleat")
	st := Step{Op: "idle", IdleMs: rapid.IntRange(320, 420).Draw(t, "idlems")}
	c.Steps = append(c.Steps[:at], append([]Step{st}, c.Steps[at:]...)...)
}

// one script in 12 runs on top of 100..300 outstanding requests
func genBurst(t *rapid.T) int {
	if rapid.IntRange(0, 11).Draw(t, "burst") != 0 {
		return 0
	}
	return rapid.OneOf(rapid.SampledFrom([]int{127, 128, 129, 130, 255, 256, 257}), rapid.IntRange(100, 300)).Draw(t, "burstn")
}

func GenC07(t *rapid.T) ScriptCase {
	c := ScriptCase{MSize: genMSize(t), Rendezvous: rapid.Bool().Draw(t, "rendezvous")}
	step := rapid.Custom(func(t *rapid.T) Step {
		st := Step{Op: rapid.SampledFrom([]string{"send", "send", "send", "complete", "flush", "flush", "flush"}).Draw(t, "op")}
		st.Which = rapid.IntRange(0, 7).Draw(t, "which")
		switch st.Op {
		case "send":
			st.Msg = genRequest(t, false)
			st.TagSel = rapid.IntRange(0, 5).Draw(t, "tagsel")
			st.Honour = rapid.Bool().Draw(t, "honour")
			st.Reuse = rapid.IntRange(0, 1).Draw(t, "reuse") == 0
			st.NoWait = rapid.IntRange(0, 3).Draw(t, "nowait") == 0
		case "complete":
			genResult(t, markedResultKinds, &st)
			st.NoWait = rapid.IntRange(0, 3).Draw(t, "nowait") == 0
			st.Oversize = rapid.IntRange(0, 3).Draw(t, "oversize") == 0
		case "flush":
			st.Target = rapid.SampledFrom([]string{"parked", "parked", "parked", "parked", "inflight", "answered", "unused"}).Draw(t, "target")
			st.Release = rapid.SampledFrom([]string{"", "", "before", "after"}).Draw(t, "release")
			st.TagSel = rapid.IntRange(0, 5).Draw(t, "tagsel")
		}
		return st
	})
	minLen := rapid.IntRange(2, maxSteps()/2).Draw(t, "minlen")
	c.Steps = rapid.SliceOfN(step, minLen, maxSteps()).Draw(t, "steps")
	c.Burst = genBurst(t)
	return c
}

func RunC06(c ScriptCase) harn.Result { return RunScript(c, false) }
func RunC07(c ScriptCase) harn.Result { return RunScript(c, true) }
