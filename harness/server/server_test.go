package server

import (
	"testing"

	"verifharness/internal/harn"
)

func TestMain(m *testing.M) { harn.Main(m) }

func init() {
	harn.Register("C06_Script", RunC06)
	harn.Register("C07_Script", RunC07)
	harn.Register("C07_Wrap", RunWrap)
	harn.Register("C11_Shutdown", RunShut)
}

func TestReplay(t *testing.T)  { harn.Replay(t) }
func TestRegress(t *testing.T) { harn.Regress(t) }

func TestC06_Script(t *testing.T)   { harn.Check(t, "C06_Script", GenC06, RunC06) }
func TestC07_Script(t *testing.T)   { harn.Check(t, "C07_Script", GenC07, RunC07) }
func TestC07_Wrap(t *testing.T)     { harn.Check(t, "C07_Wrap", GenWrap, RunWrap) }
func TestC11_Shutdown(t *testing.T) { harn.Check(t, "C11_Shutdown", GenShut, RunShut) }
