package ramfsx

import (
	"strings"

	"pgregory.net/rapid"

	"verifharness/internal/harn"
)

type SeqCase struct {
	Sessions int
	Ops      []Op
}

var names = []string{"a", "b", "c", "a", "b", "..", "..", "zz"}
var badNames = []string{"", ".", "a/b", "\\"}
var cnames = []string{"a", "b", "c", "a", "", ".", "..", "x/y"}
var datas = []string{"", "x", "hello", "0123456789", strings.Repeat("Z", 300)}

func genOffset(t *rapid.T) int64 {
	return rapid.OneOf(
		rapid.SampledFrom([]int64{0, 0, 0, 1, 2, 5, 9, 10, 11, 299, 300, 301}),
		rapid.SampledFrom([]int64{1 << 31, 1<<31 - 1, 1<<63 - 1, 1<<63 - 2, -1, -2, -1 << 63, -1<<63 + 1, 1 << 40}),
		rapid.Int64Range(0, 320),
	).Draw(t, "offset")
}

func GenOp(t *rapid.T, nsess int) Op {
	op := Op{S: rapid.IntRange(0, nsess-1).Draw(t, "s")}
	op.Kind = rapid.SampledFrom([]string{"attach", "walk", "walk", "walk", "walk", "open", "open", "create", "create", "create", "read", "read", "write", "write", "truncate", "stat", "clunk", "remove", "remove", "list", "list"}).Draw(t, "kind")
	op.Fid = rapid.SampledFrom([]uint32{0, 0, 1, 1, 1, 2, 2, 3, 4}).Draw(t, "fid")
	switch op.Kind {
	case "walk":
		op.Newfid = uint32(rapid.IntRange(0, 4).Draw(t, "newfid"))
		if rapid.IntRange(0, 4).Draw(t, "inplace") == 0 {
			op.Newfid = op.Fid
		}
		c := rapid.IntRange(0, 9).Draw(t, "nc")
		switch {
		case c < 2:
		case c < 9:
			op.Names = rapid.SliceOfN(rapid.SampledFrom(names), 1, 4).Draw(t, "names")
			// normal form wants the ".." first: sort them to the front most of the time
			if rapid.IntRange(0, 4).Draw(t, "norm") > 0 {
				var dd, rest []string
				for _, n := range op.Names {
					if n == ".." {
						dd = append(dd, n)
					} else {
						rest = append(rest, n)
					}
				}
				op.Names = append(dd, rest...)
			}
		default:
			op.Names = []string{rapid.SampledFrom(badNames).Draw(t, "bad")}
		}
	case "open":
		op.Mode = rapid.SampledFrom([]uint8{0, 1, 2, 2, 2, 3, 0x40}).Draw(t, "mode")
	case "create":
		op.Name = rapid.SampledFrom(cnames).Draw(t, "name")
		op.Dir = rapid.IntRange(0, 2).Draw(t, "dir") == 0
		op.Mode = rapid.SampledFrom([]uint8{0, 1, 2, 2, 2}).Draw(t, "mode")
	case "read":
		op.Offset = genOffset(t)
		op.Count = rapid.SampledFrom([]int{0, 1, 5, 64, 400, 65536}).Draw(t, "count")
	case "write":
		op.Offset = genOffset(t)
		op.Data = rapid.SampledFrom(datas).Draw(t, "data")
	case "truncate":
		op.Length = rapid.OneOf(rapid.SampledFrom([]uint64{0, 1, 5, 10, 300}), rapid.Uint64Range(0, 20), rapid.SampledFrom([]uint64{1 << 32, 1<<63 - 1, 1 << 63, ^uint64(0) - 1})).Draw(t, "length")
		if rapid.IntRange(0, 4).Draw(t, "withname") == 0 {
			op.Name = "renamed" // the request also carries a new name, which ramfs refuses
		}
	}
	return op
}

func GenSeq(t *rapid.T) SeqCase {
	c := SeqCase{Sessions: rapid.IntRange(1, 3).Draw(t, "sessions")}
	for s := 0; s < c.Sessions; s++ {
		c.Ops = append(c.Ops, Op{S: s, Kind: "attach", Fid: 0})
	}
	// canned multi-step preludes with generated parameters, so that the deep
	// states (stale handles to removed-and-recreated names, handles inside a
	// removed directory) are reached in most histories rather than by luck
	if rapid.IntRange(0, 2).Draw(t, "staleblock") == 0 {
		s := rapid.IntRange(0, c.Sessions-1).Draw(t, "bs")
		s2 := rapid.IntRange(0, c.Sessions-1).Draw(t, "bs2")
		n := rapid.SampledFrom([]string{"a", "b"}).Draw(t, "bn")
		d := rapid.Bool().Draw(t, "bd")
		d2 := rapid.Bool().Draw(t, "bd2")
		c.Ops = append(c.Ops,
			Op{S: s, Kind: "walk", Fid: 0, Newfid: 3},
			Op{S: s2, Kind: "walk", Fid: 0, Newfid: 4},
			Op{S: s, Kind: "create", Fid: 3, Name: n, Dir: d, Mode: 2},
			Op{S: s2, Kind: "walk", Fid: 0, Newfid: 2, Names: []string{n}},
			Op{S: s, Kind: "remove", Fid: 3},
			Op{S: s2, Kind: "create", Fid: 4, Name: n, Dir: d2, Mode: 2},
		)
	}
	if rapid.IntRange(0, 2).Draw(t, "removedblock") == 0 {
		s := rapid.IntRange(0, c.Sessions-1).Draw(t, "rs")
		s2 := rapid.IntRange(0, c.Sessions-1).Draw(t, "rs2")
		c.Ops = append(c.Ops,
			Op{S: s, Kind: "walk", Fid: 0, Newfid: 1},
			Op{S: s, Kind: "create", Fid: 1, Name: "c", Dir: true, Mode: 0},
			Op{S: s2, Kind: "walk", Fid: 0, Newfid: 3 + uint32(s2%2), Names: []string{"c"}},
			Op{S: s2, Kind: "walk", Fid: 3 + uint32(s2%2), Newfid: 1 + uint32(s2%2)*0, Names: nil},
		)
	}
	if rapid.IntRange(0, 3).Draw(t, "tripleblock") == 0 {
		// a directory with a child, held through three fids (the third may sit on the child);
		// it is removed through the first, a second remove is refused, the third is still used
		s := rapid.IntRange(0, c.Sessions-1).Draw(t, "ts")
		s2 := rapid.IntRange(0, c.Sessions-1).Draw(t, "ts2")
		s3 := rapid.IntRange(0, c.Sessions-1).Draw(t, "ts3")
		dn := rapid.SampledFrom([]string{"c", "a"}).Draw(t, "tdn")
		onChild := rapid.Bool().Draw(t, "tchild")
		third := []string{dn}
		if onChild {
			third = []string{dn, "b"}
		}
		c.Ops = append(c.Ops,
			Op{S: s, Kind: "walk", Fid: 0, Newfid: 1},
			Op{S: s, Kind: "create", Fid: 1, Name: dn, Dir: true},
			Op{S: s, Kind: "walk", Fid: 1, Newfid: 2},
			Op{S: s, Kind: "create", Fid: 2, Name: "b", Dir: rapid.Bool().Draw(t, "tbdir"), Mode: 2},
			Op{S: s, Kind: "clunk", Fid: 2},
			Op{S: s2, Kind: "walk", Fid: 0, Newfid: 3, Names: []string{dn}},
			Op{S: s3, Kind: "walk", Fid: 0, Newfid: 4, Names: third},
			Op{S: s, Kind: "remove", Fid: 1},
			Op{S: s2, Kind: "remove", Fid: 3},
		)
		if onChild {
			c.Ops = append(c.Ops, Op{S: s3, Kind: "walk", Fid: 4, Newfid: 4, Names: []string{".."}}, Op{S: s3, Kind: "list", Fid: 4}, Op{S: s3, Kind: "walk", Fid: 4, Newfid: 2, Names: []string{"b"}})
		} else {
			c.Ops = append(c.Ops, Op{S: s3, Kind: "walk", Fid: 4, Newfid: 2, Names: []string{"b"}}, Op{S: s3, Kind: "list", Fid: 4})
		}
	}
	if rapid.IntRange(0, 1).Draw(t, "fileblock") == 0 {
		s := rapid.IntRange(0, c.Sessions-1).Draw(t, "fs")
		d1 := rapid.SampledFrom(datas[1:]).Draw(t, "fd1")
		d2 := rapid.SampledFrom(datas[1:]).Draw(t, "fd2")
		off := int64(len(d1)) - int64(rapid.IntRange(0, 3).Draw(t, "foverlap"))
		if off < 0 {
			off = 0
		}
		c.Ops = append(c.Ops,
			Op{S: s, Kind: "walk", Fid: 0, Newfid: 1},
			Op{S: s, Kind: "create", Fid: 1, Name: "b", Mode: 2},
			Op{S: s, Kind: "write", Fid: 1, Data: d1},
			Op{S: s, Kind: "write", Fid: 1, Data: d2, Offset: off},
			Op{S: s, Kind: "read", Fid: 1, Count: 65536},
		)
		if rapid.Bool().Draw(t, "ftrunc") {
			total := int(off) + len(d2)
			if len(d1) > total {
				total = len(d1)
			}
			k := rapid.IntRange(0, total).Draw(t, "fk")
			c.Ops = append(c.Ops,
				Op{S: s, Kind: "truncate", Fid: 1, Length: uint64(k), Name: map[bool]string{true: "renamed", false: ""}[rapid.IntRange(0, 3).Draw(t, "fname") == 0]},
				Op{S: s, Kind: "read", Fid: 1, Count: 64, Offset: int64(rapid.IntRange(k, total+1).Draw(t, "foff"))},
				Op{S: s, Kind: "read", Fid: 1, Count: 65536},
			)
		}
	}
	if rapid.IntRange(0, 2).Draw(t, "deepblock") == 0 {
		// a directory chain /a/b/c with handles at depth 3 and several walks that climb two or
		// three levels and descend again (handles created from one another share ancestry)
		s := rapid.IntRange(0, c.Sessions-1).Draw(t, "ds")
		leaf := rapid.SampledFrom([]string{"c", "b", "zz"}).Draw(t, "dleaf")
		up := rapid.IntRange(2, 3).Draw(t, "dup")
		var dd []string
		for i := 0; i < up; i++ {
			dd = append(dd, "..")
		}
		target := []string{"a", "b", leaf}[3-up:]
		if rapid.Bool().Draw(t, "dsibling") {
			// … or descend into a *sibling* of the path just climbed
			if up == 2 {
				target = []string{"zz"}
			} else {
				target = []string{"a", "zz"}
			}
		}
		c.Ops = append(c.Ops,
			Op{S: s, Kind: "walk", Fid: 0, Newfid: 1},
			Op{S: s, Kind: "create", Fid: 1, Name: "a", Dir: true},
			Op{S: s, Kind: "walk", Fid: 1, Newfid: 2},
			Op{S: s, Kind: "create", Fid: 2, Name: "zz", Dir: true},
			Op{S: s, Kind: "clunk", Fid: 2},
			Op{S: s, Kind: "walk", Fid: 1, Newfid: 2},
			Op{S: s, Kind: "create", Fid: 2, Name: "b", Dir: true},
			Op{S: s, Kind: "walk", Fid: 2, Newfid: 3},
			Op{S: s, Kind: "create", Fid: 3, Name: "c", Dir: true},
			Op{S: s, Kind: "walk", Fid: 3, Newfid: 4},
			Op{S: s, Kind: "clunk", Fid: 2},
			Op{S: s, Kind: "walk", Fid: 3, Newfid: 2, Names: append(append([]string{}, dd...), target...)},
			Op{S: s, Kind: "walk", Fid: 3, Newfid: 3, Names: []string{".."}},
			Op{S: s, Kind: "list", Fid: 3},
			Op{S: s, Kind: "walk", Fid: 4, Newfid: 4, Names: append(append([]string{}, dd...), target...)},
			Op{S: s, Kind: "stat", Fid: 4},
			Op{S: s, Kind: "list", Fid: 4},
			Op{S: s, Kind: "stat", Fid: 2},
		)
	}
	max := 50
	if harn.Thorough() {
		max = 100
	}
	minLen := rapid.IntRange(1, max/2).Draw(t, "minlen")
	c.Ops = append(c.Ops, rapid.SliceOfN(rapid.Custom(func(t *rapid.T) Op { return GenOp(t, c.Sessions) }), minLen, max).Draw(t, "ops")...)
	return c
}

func RunSeq(c SeqCase) harn.Result {
	w := newWorld(c.Sessions)
	res := harn.Result{}
	cl := map[string]bool{}
	touched := map[*mnode]map[int]bool{}
	for i, op := range c.Ops {
		if op.S >= c.Sessions {
			op.S = op.S % c.Sessions
		}
		f := w.fids[op.S][op.Fid]
		if f != nil {
			if touched[f.node] == nil {
				touched[f.node] = map[int]bool{}
			}
			touched[f.node][op.S] = true
			if len(touched[f.node]) >= 2 && f.node != w.root {
				cl["node_shared_by_sessions"] = true
			}
			if op.Kind == "write" && op.Offset != 0 && f.open {
				cl["write_at_nonzero_offset"] = true
			}
			if op.Kind == "walk" {
				for _, n := range op.Names {
					if n == ".." {
						cl["dotdot_walk"] = true
					}
				}
				if len(f.path) > 0 {
					p := f.path[len(f.path)-1]
					if p.children[f.node.name] != f.node {
						cl["walk_from_removed_node"] = true
					}
				}
			}
			if op.Kind == "remove" && len(f.path) > 0 && f.path[len(f.path)-1].children[f.node.name] != f.node {
				cl["remove_stale_handle"] = true
			}
			if (op.Kind == "read" || op.Kind == "write") && (op.Offset < 0 || op.Offset > 1<<30) {
				cl["huge_offset"] = true
			}
		}
		if v := w.step(op); v != "" {
			return harn.Fail("step %d: %s [history: %s]", i, v, hist(w.trace))
		}
	}
	if v := w.finish(); v != "" {
		return harn.Fail("%s [history: %s]", v, hist(w.trace))
	}
	for k := range cl {
		res.Classes = append(res.Classes, k)
	}
	res.NonTrivial = cl["write_at_nonzero_offset"] || cl["dotdot_walk"] || cl["walk_from_removed_node"] || cl["node_shared_by_sessions"]
	return res
}

func hist(t []string) string {
	if len(t) > 60 {
		t = append([]string{"…"}, t[len(t)-60:]...)
	}
	return strings.Join(t, "; ")
}
