package ramfsx

import (
	"testing"

	"verifharness/internal/harn"
)

func TestMain(m *testing.M) { harn.Main(m) }

func init() {
	harn.Register("C18_Seq", RunSeq)
	harn.Register("C18_Conc", RunConc)
	harn.Register("C18_Race", RunRace)
}

func TestReplay(t *testing.T)  { harn.Replay(t) }
func TestRegress(t *testing.T) { harn.Regress(t) }

func TestC18_Seq(t *testing.T)  { harn.Check(t, "C18_Seq", GenSeq, RunSeq) }
func TestC18_Conc(t *testing.T) { harn.Check(t, "C18_Conc", GenConc, RunConc) }
func TestC18_Race(t *testing.T) { harn.Check(t, "C18_Race", GenRace, RunRace) }
