// Package ramfsx decides C18: the in-memory file server (ramfs) is a tree of
// byte arrays and never crashes — sequentially against a reference model tree
// keyed by node identity, and with several truly concurrent sessions under
// the race detector.  Sessions are p9p.SFileSys sessions on one fresh ramfs
// instance (verif hook VerifNewServer), which also provides the
// reference-count validator.
package ramfsx

import (
	"bytes"
	"context"
	"fmt"
	"runtime/debug"
	"sort"
	"strings"

	p9p "github.com/frobnitzem/go-p9p"
	"github.com/frobnitzem/go-p9p/ramfs"
)

type Op struct {
	S      int    // session index
	Kind   string // attach walk open create read write truncate stat clunk remove list
	Fid    uint32
	Newfid uint32   `json:",omitempty"`
	Names  []string `json:",omitempty"`
	Name   string   `json:",omitempty"`
	Dir    bool     `json:",omitempty"`
	Mode   uint8    `json:",omitempty"`
	Offset int64    `json:",omitempty"`
	Count  int      `json:",omitempty"`
	Data   string   `json:",omitempty"`
	Length uint64   `json:",omitempty"`
}

func (o Op) String() string {
	s := fmt.Sprintf("s%d.%s(fid=%d", o.S, o.Kind, o.Fid)
	switch o.Kind {
	case "walk":
		s += fmt.Sprintf(" newfid=%d %q", o.Newfid, o.Names)
	case "open":
		s += fmt.Sprintf(" mode=%#x", o.Mode)
	case "create":
		s += fmt.Sprintf(" %q dir=%v mode=%#x", o.Name, o.Dir, o.Mode)
	case "read":
		s += fmt.Sprintf(" count=%d off=%d", o.Count, o.Offset)
	case "write":
		s += fmt.Sprintf(" %dB off=%d", len(o.Data), o.Offset)
	case "truncate":
		s += fmt.Sprintf(" len=%d", o.Length)
	}
	return s + ")"
}

type mnode struct {
	id          int
	name        string
	dir         bool
	children    map[string]*mnode
	data        []byte
	qid         uint64
	hasQid      bool
	dataUnknown bool
}

type mfid struct {
	node *mnode
	path []*mnode // ancestors from the root, as walked (what ".." resolves through)
	open bool
	mode uint8
	// after an in-place walk of an open fid, what the fid's open state means
	// is not determined by the property (9P forbids the walk, the code keeps
	// the old open file): I/O on it is not asserted, only that nothing panics
	openUnknown bool
}

type world struct {
	fs       p9p.FileSys
	validate func() error
	sess     []p9p.Session
	fids     []map[uint32]*mfid
	root     *mnode
	nextID   int
	byQid    map[uint64]*mnode
	trace    []string
	scratch  [][]byte // per session: the buffer its writes are issued from, overwritten after every call
}

func newWorld(nsess int) *world {
	fs, validate := ramfs.VerifNewServer()
	w := &world{fs: fs, validate: validate, byQid: map[uint64]*mnode{}}
	w.root = &mnode{id: 0, name: "/", dir: true, children: map[string]*mnode{}}
	w.nextID = 1
	for i := 0; i < nsess; i++ {
		w.sess = append(w.sess, p9p.SFileSys(fs))
		w.fids = append(w.fids, map[uint32]*mfid{})
		w.scratch = append(w.scratch, make([]byte, 512))
	}
	return w
}

func validNames(names []string) bool {
	seen := false
	for _, s := range names {
		switch {
		case s == "" || s == "." || strings.ContainsAny(s, "/\\"):
			return false
		case s == "..":
			if seen {
				return false
			}
		default:
			seen = true
		}
	}
	return true
}

func readOK(mode uint8) bool  { m := mode & 3; return m == 0 || m == 2 || m == 3 }
func writeOK(mode uint8) bool { m := mode & 3; return m == 1 || m == 2 }

// learnQid records / checks the qid path of a model node.
func (w *world) learnQid(n *mnode, q p9p.Qid) string {
	if (q.Type&p9p.QTDIR != 0) != n.dir {
		return fmt.Sprintf("qid %v has the wrong directory bit for node %q (dir=%v)", q, n.name, n.dir)
	}
	if n.hasQid {
		if n.qid != q.Path {
			return fmt.Sprintf("node %q reported qid path %d before and %d now", n.name, n.qid, q.Path)
		}
		return ""
	}
	if other, dup := w.byQid[q.Path]; dup && other != n {
		return fmt.Sprintf("two different nodes (%q and %q) share qid path %d", other.name, n.name, q.Path)
	}
	n.qid, n.hasQid = q.Path, true
	w.byQid[q.Path] = n
	return ""
}

type callResult struct {
	err  error
	qid  p9p.Qid
	qids []p9p.Qid
	n    int
	data []byte
	dir  p9p.Dir
	dirs []p9p.Dir
	pan  string
}

func safely(f func()) (pan string) {
	defer func() {
		if r := recover(); r != nil {
			pan = fmt.Sprintf("%v\n%s", r, trimStack(debug.Stack()))
		}
	}()
	f()
	return ""
}

func trimStack(s []byte) []byte {
	if i := bytes.Index(s, []byte("panic(")); i >= 0 {
		s = s[i:]
	}
	if len(s) > 900 {
		s = s[:900]
	}
	return s
}

var ctx = context.Background()

const tmpFid = 0xF000

func (w *world) do(op Op) callResult {
	s := w.sess[op.S]
	var r callResult
	fid := p9p.Fid(op.Fid)
	r.pan = safely(func() {
		switch op.Kind {
		case "attach":
			r.qid, r.err = s.Attach(ctx, fid, p9p.NOFID, "user", "")
		case "walk":
			r.qids, r.err = s.Walk(ctx, fid, p9p.Fid(op.Newfid), op.Names...)
		case "open":
			r.qid, _, r.err = s.Open(ctx, fid, p9p.Flag(op.Mode))
		case "create":
			perm := uint32(0644)
			if op.Dir {
				perm = p9p.DMDIR | 0755
			}
			r.qid, _, r.err = s.Create(ctx, fid, op.Name, perm, p9p.Flag(op.Mode))
		case "read":
			buf := make([]byte, op.Count)
			r.n, r.err = s.Read(ctx, fid, buf, op.Offset)
			if r.n >= 0 && r.n <= len(buf) {
				r.data = buf[:r.n]
			}
		case "write":
			// the caller's buffer is reused after the call, as io.Copy-style loops do
			sc := w.scratch[op.S]
			n := copy(sc, op.Data)
			buf := sc[:n:n]
			if n < len(op.Data) {
				buf = []byte(op.Data)
			}
			r.n, r.err = s.Write(ctx, fid, buf, op.Offset)
			for i := range sc[:n] {
				sc[i] = 0xEE
			}
		case "truncate":
			d := p9p.Dir{Mode: ^uint32(0), Length: op.Length}
			if op.Name != "" {
				d.Name = op.Name // the same request also asks for a new name (ramfs cannot rename)
			}
			r.err = s.WStat(ctx, fid, d)
		case "stat":
			r.dir, r.err = s.Stat(ctx, fid)
		case "clunk":
			r.err = s.Clunk(ctx, fid)
		case "remove":
			r.err = s.Remove(ctx, fid)
		case "list":
			// clone, open, read everything, clunk
			if _, r.err = s.Walk(ctx, fid, tmpFid); r.err != nil {
				return
			}
			defer s.Clunk(ctx, tmpFid)
			if _, _, r.err = s.Open(ctx, tmpFid, p9p.OREAD); r.err != nil {
				return
			}
			var all []byte
			var off int64
			for i := 0; i < 64; i++ {
				buf := make([]byte, 8192)
				n, err := s.Read(ctx, tmpFid, buf, off)
				if err != nil {
					r.err = err
					return
				}
				if n == 0 {
					break
				}
				all = append(all, buf[:n]...)
				off += int64(n)
			}
			rd := bytes.NewReader(all)
			codec := p9p.NewCodec()
			for rd.Len() > 0 {
				var d p9p.Dir
				if err := p9p.DecodeDir(codec, rd, &d); err != nil {
					r.err = fmt.Errorf("directory data does not decode: %v", err)
					return
				}
				r.dirs = append(r.dirs, d)
			}
		}
	})
	return r
}

// step executes op and checks it against the model; returns "" or the violation.
func (w *world) step(op Op) string {
	w.trace = append(w.trace, op.String())
	fids := w.fids[op.S]
	f, bound := fids[op.Fid]
	r := w.do(op)
	if r.pan != "" {
		return fmt.Sprintf("%s panicked: %s", op, r.pan)
	}
	failed := r.err != nil
	mustFail := func(why string) string {
		if !failed {
			return fmt.Sprintf("%s succeeded but must fail: %s", op, why)
		}
		return ""
	}
	mustOK := func() string {
		if failed {
			return fmt.Sprintf("%s failed with %v but must succeed", op, r.err)
		}
		return ""
	}
	switch op.Kind {
	case "attach":
		if bound {
			return mustFail("fid already bound")
		}
		if v := mustOK(); v != "" {
			return v
		}
		if v := w.learnQid(w.root, r.qid); v != "" {
			return op.String() + ": " + v
		}
		fids[op.Fid] = &mfid{node: w.root}
	case "walk":
		_, nbound := fids[op.Newfid]
		switch {
		case !validNames(op.Names):
			return mustFail("names not in normal form")
		case !bound:
			return mustFail("fid not bound")
		case op.Newfid != op.Fid && nbound:
			return mustFail("newfid already bound")
		case len(op.Names) == 0:
			if v := mustOK(); v != "" {
				return v
			}
			if op.Newfid != op.Fid {
				fids[op.Newfid] = &mfid{node: f.node, path: f.path}
			}
			return ""
		case !f.node.dir:
			return mustFail("walk in a non-directory")
		}
		lead := 0
		for _, n := range op.Names {
			if n == ".." {
				lead++
			}
		}
		if lead > len(f.path) {
			return mustFail("'..' above the root")
		}
		cur, path := f.node, append([]*mnode(nil), f.path...)
		var found []*mnode
		for _, n := range op.Names {
			var next *mnode
			if n == ".." {
				next = path[len(path)-1]
				path = path[:len(path)-1]
			} else {
				if cur.dir {
					next = cur.children[n]
				}
				if next != nil {
					path = append(path, cur)
				}
			}
			if next == nil {
				break
			}
			found = append(found, next)
			cur = next
		}
		if len(found) == 0 {
			return mustFail("first element not found")
		}
		if f.open || f.openUnknown {
			// walking an open fid: not determined by the property
			if failed {
				return ""
			}
		} else if v := mustOK(); v != "" {
			return v
		}
		if len(r.qids) != len(found) {
			return fmt.Sprintf("%s returned %d qids, the model tree resolves %d of %d elements", op, len(r.qids), len(found), len(op.Names))
		}
		for i, n := range found {
			if v := w.learnQid(n, r.qids[i]); v != "" {
				return fmt.Sprintf("%s element %d: %s", op, i, v)
			}
		}
		if len(found) == len(op.Names) {
			nf := &mfid{node: cur, path: path}
			if op.Newfid == op.Fid && (f.open || f.openUnknown) {
				nf.openUnknown = true
			}
			fids[op.Newfid] = nf
		}
	case "open":
		switch {
		case !bound:
			return mustFail("fid not bound")
		case f.openUnknown:
			if !failed {
				f.open, f.mode, f.openUnknown = true, op.Mode, false
			}
			return ""
		case f.open:
			return mustFail("already open")
		}
		if v := mustOK(); v != "" {
			return v
		}
		if v := w.learnQid(f.node, r.qid); v != "" {
			return op.String() + ": " + v
		}
		f.open, f.mode = true, op.Mode
		if op.Mode&0x10 != 0 && !f.node.dir {
			// OTRUNC: ramfs' Open ignores it; the property does not list truncating opens, so both are accepted:
			// re-synchronise the model from a stat-free observation is not possible, so avoid generating it (see generator)
		}
	case "create":
		switch {
		case op.Name == "." || op.Name == "..":
			return mustFail("illegal name")
		case !bound:
			return mustFail("fid not bound")
		case !f.node.dir:
			return mustFail("create in a non-directory")
		case op.Name == "" || strings.ContainsAny(op.Name, "/\\"):
			return mustFail("invalid name")
		}
		if _, dup := f.node.children[op.Name]; dup {
			return mustFail("name exists")
		}
		if f.open || f.openUnknown {
			if failed {
				return ""
			}
		} else if v := mustOK(); v != "" {
			return v
		}
		n := &mnode{id: w.nextID, name: op.Name, dir: op.Dir}
		w.nextID++
		if op.Dir {
			n.children = map[string]*mnode{}
		}
		if v := w.learnQid(n, r.qid); v != "" {
			return op.String() + ": " + v
		}
		f.node.children[op.Name] = n
		fids[op.Fid] = &mfid{node: n, path: append(append([]*mnode(nil), f.path...), f.node), open: true, mode: op.Mode}
	case "read":
		switch {
		case !bound:
			return mustFail("fid not bound")
		case f.openUnknown:
			return ""
		case !f.open:
			return mustFail("fid not open")
		case !readOK(f.mode):
			return mustFail("mode does not permit reading")
		case f.node.dir:
			return "" // directory reads are checked by the list operation
		}
		if f.node.dataUnknown {
			return ""
		}
		data := f.node.data
		if op.Offset < 0 || op.Offset > int64(len(data)) {
			// beyond the end (negative = ≥ 2^63 on the wire): zero bytes, with or without an error
			if r.n != 0 {
				return fmt.Sprintf("%s returned %d bytes from beyond the end of a %d-byte file", op, r.n, len(data))
			}
			return ""
		}
		if v := mustOK(); v != "" {
			return v
		}
		end := op.Offset + int64(op.Count)
		if end > int64(len(data)) || end < op.Offset {
			end = int64(len(data))
		}
		if !bytes.Equal(r.data, data[op.Offset:end]) {
			return fmt.Sprintf("%s returned %q, the bytes most recently written there are %q", op, clip(r.data), clip(data[op.Offset:end]))
		}
	case "write":
		switch {
		case !bound:
			return mustFail("fid not bound")
		case f.openUnknown:
			if !failed && !f.node.dir {
				// the write may have landed in the file: the model can no longer vouch for its contents
				f.node.dataUnknown = true
			}
			return ""
		case !f.open:
			return mustFail("fid not open")
		case !writeOK(f.mode):
			return mustFail("mode does not permit writing")
		case f.node.dir:
			return mustFail("write to a directory")
		}
		if f.node.dataUnknown {
			return ""
		}
		data := f.node.data
		if op.Offset < 0 || op.Offset > int64(len(data)) {
			return mustFail("offset beyond the end of the file")
		}
		if v := mustOK(); v != "" {
			return v
		}
		if r.n != len(op.Data) {
			return fmt.Sprintf("%s wrote %d bytes", op, r.n)
		}
		nd := append([]byte(nil), data[:op.Offset]...)
		nd = append(nd, op.Data...)
		if tail := op.Offset + int64(len(op.Data)); tail < int64(len(data)) {
			nd = append(nd, data[tail:]...)
		}
		f.node.data = nd
	case "truncate":
		if !bound {
			return mustFail("fid not bound")
		}
		if f.node.dataUnknown {
			return ""
		}
		if op.Name != "" && op.Name != f.node.name {
			// a request that is refused (no rename in ramfs) changes nothing, whatever else it carried
			return mustFail("ramfs cannot rename")
		}
		if op.Length > uint64(len(f.node.data)) {
			return mustFail("cannot extend a file by wstat")
		}
		if v := mustOK(); v != "" {
			return v
		}
		f.node.data = f.node.data[:op.Length]
	case "stat":
		if !bound {
			return mustFail("fid not bound")
		}
		if v := mustOK(); v != "" {
			return v
		}
		if r.dir.Name != f.node.name {
			return fmt.Sprintf("%s reports name %q, the node is %q", op, r.dir.Name, f.node.name)
		}
		if v := w.learnQid(f.node, r.dir.Qid); v != "" {
			return op.String() + ": " + v
		}
	case "clunk":
		if !bound {
			return mustFail("fid not bound")
		}
		if v := mustOK(); v != "" {
			return v
		}
		delete(fids, op.Fid)
	case "remove":
		if !bound {
			return mustFail("fid not bound")
		}
		delete(fids, op.Fid)
		if len(f.path) == 0 {
			return mustFail("the root cannot be removed")
		}
		parent := f.path[len(f.path)-1]
		if parent.children[f.node.name] != f.node {
			return mustFail("the file was already removed (a newer file of the same name must not be touched)")
		}
		if v := mustOK(); v != "" {
			return v
		}
		delete(parent.children, f.node.name)
	case "list":
		switch {
		case !bound:
			return mustFail("fid not bound")
		case !f.node.dir:
			return "" // listing a file: reads its data; not asserted here
		}
		if v := mustOK(); v != "" {
			return v
		}
		var got []string
		for _, d := range r.dirs {
			got = append(got, d.Name)
			if d.Name == ".." {
				continue
			}
			if c := f.node.children[d.Name]; c != nil {
				if v := w.learnQid(c, d.Qid); v != "" {
					return fmt.Sprintf("%s entry %q: %s", op, d.Name, v)
				}
			}
		}
		want := []string{".."}
		for k := range f.node.children {
			want = append(want, k)
		}
		sort.Strings(got)
		sort.Strings(want)
		if strings.Join(got, "\x00") != strings.Join(want, "\x00") {
			return fmt.Sprintf("%s lists %q, the directory holds %q", op, got, want)
		}
	}
	return ""
}

func clip(b []byte) []byte {
	if len(b) > 24 {
		return append(append([]byte{}, b[:24]...), '.', '.')
	}
	return b
}

// finish clunks every fid of every session and runs the reference-count validator.
func (w *world) finish() string {
	for si, fids := range w.fids {
		var ks []int
		for k := range fids {
			ks = append(ks, int(k))
		}
		sort.Ints(ks)
		for _, k := range ks {
			var err error
			if pan := safely(func() { err = w.sess[si].Clunk(ctx, p9p.Fid(k)) }); pan != "" {
				return fmt.Sprintf("final clunk of s%d fid %d panicked: %s", si, k, pan)
			}
			if err != nil {
				return fmt.Sprintf("final clunk of s%d fid %d failed: %v", si, k, err)
			}
		}
	}
	if err := w.validate(); err != nil {
		return "after every fid was clunked: " + err.Error()
	}
	return ""
}
