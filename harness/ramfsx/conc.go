package ramfsx

import (
	"fmt"
	"sync"
	"sync/atomic"
	"time"

	p9p "github.com/frobnitzem/go-p9p"
	"pgregory.net/rapid"

	"verifharness/internal/harn"
)

// ConcCase: one goroutine per session, all on the shared tree.
type ConcCase struct {
	Prefix  []Op   // sequential set-up (session 0)
	Threads [][]Op // Threads[i] runs on session i
}

func GenConc(t *rapid.T) ConcCase {
	var c ConcCase
	n := rapid.IntRange(2, 4).Draw(t, "sessions")
	// a small shared tree: /a (dir) /a/b (dir) /f (file) so that the sessions collide
	c.Prefix = []Op{
		{S: 0, Kind: "attach", Fid: 0},
		{S: 0, Kind: "walk", Fid: 0, Newfid: 1},
		{S: 0, Kind: "create", Fid: 1, Name: "a", Dir: true},
		{S: 0, Kind: "walk", Fid: 1, Newfid: 2},
		{S: 0, Kind: "create", Fid: 2, Name: "b", Dir: true},
		{S: 0, Kind: "walk", Fid: 0, Newfid: 3},
		{S: 0, Kind: "create", Fid: 3, Name: "f", Mode: 2},
		{S: 0, Kind: "write", Fid: 3, Data: "shared file contents"},
		{S: 0, Kind: "clunk", Fid: 1}, {S: 0, Kind: "clunk", Fid: 2}, {S: 0, Kind: "clunk", Fid: 3},
	}
	for s := 0; s < n; s++ {
		ops := []Op{}
		if s != 0 {
			ops = append(ops, Op{S: s, Kind: "attach", Fid: 0})
		}
		// every session opens the shared file and holds the shared directories
		ops = append(ops,
			Op{S: s, Kind: "walk", Fid: 0, Newfid: 1, Names: []string{"f"}},
			Op{S: s, Kind: "open", Fid: 1, Mode: 2},
			Op{S: s, Kind: "walk", Fid: 0, Newfid: 2, Names: []string{"a"}},
			Op{S: s, Kind: "walk", Fid: 0, Newfid: 3, Names: []string{"a", "b"}},
		)
		k := rapid.IntRange(5, 40).Draw(t, "nops")
		for i := 0; i < k; i++ {
			op := GenOp(t, 1)
			op.S = s
			if (op.Kind == "read" || op.Kind == "write" || op.Kind == "truncate" || op.Kind == "stat") && rapid.IntRange(0, 2).Draw(t, "onshared") > 0 {
				op.Fid = 1
			}
			if op.Kind == "attach" && op.Fid == 0 {
				op.Fid = 1
			}
			if (op.Kind == "clunk" || op.Kind == "remove") && op.Fid == 0 {
				op.Fid = 1 // keep the root fid so the session stays useful
			}
			ops = append(ops, op)
		}
		c.Threads = append(c.Threads, ops)
	}
	return c
}

func RunConc(c ConcCase) harn.Result {
	w := newWorld(len(c.Threads))
	for _, op := range c.Prefix {
		if r := w.do(op); r.pan != "" || r.err != nil {
			return harn.Fail("HARNESS prefix %s: %v %s", op, r.err, r.pan)
		}
	}
	var wg sync.WaitGroup
	var mu sync.Mutex
	var panics []string
	for s, ops := range c.Threads {
		wg.Add(1)
		go func(s int, ops []Op) {
			defer wg.Done()
			for _, op := range ops {
				op.S = s
				r := w.do(op)
				if r.pan != "" {
					mu.Lock()
					panics = append(panics, fmt.Sprintf("%s panicked: %s", op, r.pan))
					mu.Unlock()
					return
				}
			}
		}(s, ops)
	}
	done := make(chan struct{})
	go func() { wg.Wait(); close(done) }()
	select {
	case <-done:
	case <-time.After(20 * time.Second):
		return harn.Fail("concurrent sessions did not finish within 20s (deadlock in the shared tree)")
	}
	if len(panics) > 0 {
		return harn.Fail("%s", panics[0])
	}
	// release everything: Stop clunks every fid a session still holds
	for _, s := range w.sess {
		var err error
		if pan := safely(func() { err = s.Stop(nil) }); pan != "" {
			return harn.Fail("Stop panicked: %s", pan)
		}
		_ = err
	}
	if err := w.validate(); err != nil {
		return harn.Fail("after all sessions released their fids: %v", err)
	}
	return harn.Result{NonTrivial: true, Classes: []string{"concurrent_sessions"}}
}

var _ p9p.Session

// ---- create race: sessions create one name in one directory at the same instant

type RaceCase struct {
	Sessions int
	Rounds   int
	Dir      bool // create directories instead of files
	Depth    int  // 0: in the root, 1: in /a
	// Spin: instead of racing creates, session 0 creates Rounds*30 names one after the other
	// while the other sessions spin on walking to the name that is about to appear
	Spin bool `json:",omitempty"`
}

func GenRace(t *rapid.T) RaceCase {
	return RaceCase{Sessions: rapid.IntRange(2, 8).Draw(t, "sessions"), Rounds: rapid.IntRange(5, 60).Draw(t, "rounds"),
		Dir: rapid.Bool().Draw(t, "dir"), Depth: rapid.IntRange(0, 1).Draw(t, "depth"), Spin: rapid.IntRange(0, 2).Draw(t, "spin") == 0}
}

// RunRace: in every round all sessions clone the directory and create the same
// name at the same moment.  The tree holds one file per name, so exactly one
// create may succeed; the winner then removes the file again.
func RunRace(c RaceCase) harn.Result {
	w := newWorld(c.Sessions)
	for s := 0; s < c.Sessions; s++ {
		if r := w.do(Op{S: s, Kind: "attach", Fid: 0}); r.err != nil || r.pan != "" {
			return harn.Fail("HARNESS attach: %v %s", r.err, r.pan)
		}
	}
	if c.Depth == 1 {
		for _, op := range []Op{{S: 0, Kind: "walk", Fid: 0, Newfid: 9}, {S: 0, Kind: "create", Fid: 9, Name: "a", Dir: true}, {S: 0, Kind: "clunk", Fid: 9}} {
			if r := w.do(op); r.err != nil || r.pan != "" {
				return harn.Fail("HARNESS %s: %v %s", op, r.err, r.pan)
			}
		}
		for s := 0; s < c.Sessions; s++ {
			if r := w.do(Op{S: s, Kind: "walk", Fid: 0, Newfid: 5, Names: []string{"a"}}); r.err != nil {
				return harn.Fail("HARNESS walk: %v", r.err)
			}
		}
	} else {
		for s := 0; s < c.Sessions; s++ {
			if r := w.do(Op{S: s, Kind: "walk", Fid: 0, Newfid: 5}); r.err != nil {
				return harn.Fail("HARNESS clone: %v", r.err)
			}
		}
	}
	if c.Spin {
		return runSpin(c, w)
	}
	for round := 0; round < c.Rounds; round++ {
		name := fmt.Sprintf("n%d", round%3)
		var wg sync.WaitGroup
		start := make(chan struct{})
		won := make([]bool, c.Sessions)
		pan := make([]string, c.Sessions)
		for s := 0; s < c.Sessions; s++ {
			wg.Add(1)
			go func(s int) {
				defer wg.Done()
				if r := w.do(Op{S: s, Kind: "walk", Fid: 5, Newfid: 6}); r.err != nil || r.pan != "" {
					pan[s] = fmt.Sprintf("clone failed: %v %s", r.err, r.pan)
					return
				}
				<-start
				r := w.do(Op{S: s, Kind: "create", Fid: 6, Name: name, Dir: c.Dir, Mode: 2})
				if r.pan != "" {
					pan[s] = r.pan
					return
				}
				won[s] = r.err == nil
			}(s)
		}
		close(start)
		wg.Wait()
		winners := 0
		for s := 0; s < c.Sessions; s++ {
			if pan[s] != "" {
				return harn.Fail("round %d, session %d: %s", round, s, pan[s])
			}
			if won[s] {
				winners++
			}
		}
		if winners != 1 {
			return harn.Fail("round %d: %d of %d sessions creating %q in the same directory at the same time succeeded; a directory holds one entry per name, so exactly one create can win", round, winners, c.Sessions, name)
		}
		// the winner removes the file, everybody drops the fid
		for s := 0; s < c.Sessions; s++ {
			kind := "clunk"
			if won[s] {
				kind = "remove"
			}
			if r := w.do(Op{S: s, Kind: kind, Fid: 6}); r.pan != "" || (won[s] && r.err != nil) {
				return harn.Fail("round %d: %s of the created file failed: %v %s", round, kind, r.err, r.pan)
			}
		}
	}
	for _, s := range w.sess {
		s.Stop(nil)
	}
	if err := w.validate(); err != nil {
		return harn.Fail("after the create races: %v", err)
	}
	return harn.Result{NonTrivial: true, Classes: []string{"create_race"}}
}

// runSpin: one creator, the others walk to each name the instant it is linked in.
func runSpin(c RaceCase, w *world) harn.Result {
	total := c.Rounds * 30
	var cur int64 // index of the name being created
	var stop int32
	var wg sync.WaitGroup
	var mu sync.Mutex
	var bad string
	fail := func(format string, a ...any) {
		mu.Lock()
		if bad == "" {
			bad = fmt.Sprintf(format, a...)
		}
		mu.Unlock()
	}
	hits := int64(0)
	for s := 1; s < c.Sessions; s++ {
		wg.Add(1)
		go func(s int) {
			defer wg.Done()
			for atomic.LoadInt32(&stop) == 0 {
				i := atomic.LoadInt64(&cur)
				r := w.do(Op{S: s, Kind: "walk", Fid: 5, Newfid: 7, Names: []string{fmt.Sprintf("w%d", i)}})
				if r.pan != "" {
					fail("session %d walking to a name that is being created panicked: %s", s, r.pan)
					return
				}
				if r.err == nil && len(r.qids) == 1 {
					atomic.AddInt64(&hits, 1)
					if r2 := w.do(Op{S: s, Kind: "clunk", Fid: 7}); r2.pan != "" {
						fail("clunk panicked: %s", r2.pan)
						return
					}
				}
			}
		}(s)
	}
	for i := 0; i < total; i++ {
		atomic.StoreInt64(&cur, int64(i))
		if r := w.do(Op{S: 0, Kind: "walk", Fid: 5, Newfid: 6}); r.err != nil || r.pan != "" {
			fail("clone failed: %v %s", r.err, r.pan)
			break
		}
		if r := w.do(Op{S: 0, Kind: "create", Fid: 6, Name: fmt.Sprintf("w%d", i), Dir: c.Dir, Mode: 2}); r.err != nil || r.pan != "" {
			fail("create of a fresh name failed: %v %s", r.err, r.pan)
			break
		}
		if r := w.do(Op{S: 0, Kind: "clunk", Fid: 6}); r.pan != "" {
			fail("clunk panicked: %s", r.pan)
			break
		}
	}
	atomic.StoreInt32(&stop, 1)
	wg.Wait()
	if bad != "" {
		return harn.Fail("%s", bad)
	}
	for _, s := range w.sess {
		s.Stop(nil)
	}
	if err := w.validate(); err != nil {
		return harn.Fail("after %d creations with %d sessions walking to each new name (%d walks found it): %v", total, c.Sessions-1, hits, err)
	}
	res := harn.Result{NonTrivial: true, Classes: []string{"create_vs_walk_spin"}}
	return res
}
