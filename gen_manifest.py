#!/usr/bin/env python3
"""Regenerates MANIFEST.json from checks_config.py (single source of truth)."""
import json, os, subprocess, sys
sys.path.insert(0, os.path.dirname(os.path.abspath(__file__)))
from checks_config import CHECKS
import manifest_text as MT

ALL = ["C%02d" % i for i in range(1, 21)]
hook_commits = []
try:
    out = subprocess.run(["git", "-C", "/repo", "log", "--format=%H %s"], stdout=subprocess.PIPE, text=True).stdout
    for line in out.splitlines():
        h, s = line.split(" ", 1)
        if s.startswith("verif hooks:"):
            hook_commits.append(h)
except Exception:
    pass

checks = []
for pid in ALL:
    if pid not in CHECKS:
        continue
    c = CHECKS[pid]
    t = MT.TEXT[pid]
    checks.append(dict(
        property_id=pid,
        quick_cmd="./check %s --tier quick" % pid,
        thorough_cmd="./check %s --tier thorough" % pid,
        evidence_file="evidence/%s.json" % pid,
        replay_cmd_template="./check %s --replay {path}" % pid,
        engine="rapid+gofuzz",
        level_claimed=dict(category=c["level"], text=t["level_text"], design_ref=t["design_ref"]),
        level_note=t["level_note"],
        technique=t["technique"],
    ))
na = [dict(property_id=p, reason=MT.NOT_APPLICABLE.get(p, "check not built yet in this round (planned, see DESIGN.md section 4)")) for p in ALL if p not in CHECKS]
m = dict(
    version=1,
    setup_cmd="./check --setup",
    hooks=dict(
        guard="verif",
        enable="go build tag: every harness binary is built with `go test -c -tags verif` from /verif/harness, whose go.mod replaces github.com/frobnitzem/go-p9p with /repo",
        baseline_off_cmd="cd /repo && go test -vet=off -count=1 -timeout 25m ./...",
        source_commits=hook_commits,
        add_only=True,
    ),
    engines=[dict(name="rapid+gofuzz", path="harness/", serves_properties=[c["property_id"] for c in checks],
                  kind_free_text="property-based testing with pgregory.net/rapid v1.3.0 (cases as JSON data, shrinking, replay files) plus Go native coverage-guided fuzzing in the thorough tier; driver ./check")],
    checks=checks,
    not_applicable=na,
    notes="All checks rebuild the harness against /repo's working tree on every run. Known findings: known-findings.txt. See DESIGN.md.",
)
json.dump(m, open(os.path.join(os.path.dirname(os.path.abspath(__file__)), "MANIFEST.json"), "w"), indent=1)
print("MANIFEST.json:", len(checks), "checks,", len(na), "not applicable")
