"""Per-property prose for MANIFEST.json."""
NOT_APPLICABLE = {}
TEXT = {
 "C16": dict(
    technique="property-based testing (rapid) against a reference stack-machine resolver + exhaustive small-scope enumeration + native fuzzing",
    design_ref="DESIGN.md section 4, C16",
    level_text="Generated-input search: every exported path helper is compared with an independent reference resolver on 20k (quick) / 2.4M (thorough) "
               "random (dir, name-list) pairs over an alphabet containing every special form, plus complete enumeration of all lists of length <=3/4 over that "
               "alphabet. The helpers are pure functions of small inputs, so this reaches every branch combination; it is exploration, not proof.",
    level_note="Trusted: the reference resolver (harness/paths/paths.go), written from the property statement. Names longer than 4 random characters and lists longer than 8 are not generated.",
 ),
 "C01": dict(
    technique="property-based differential testing (rapid) of Marshal/Size/Unmarshal against an independent reference 9P2000 encoder, per message kind; native fuzzing of the decoder against the reference decoder",
    design_ref="DESIGN.md section 4, C01",
    level_text="Generated-input search over all 27 message kinds with boundary-biased field values; the oracle is byte equality with a reference encoder written from the manual, "
               "which catches symmetric encode/decode errors a round-trip cannot. Sampled, not exhaustive: maximal lengths are reached only in the thorough tier.",
    level_note="Trusted: harness/internal/refwire (independent encoder/decoder, shares no code with go-p9p). Pointer-typed messages inside Fcall are not generated.",
 ),
 "C04": dict(
    technique="property-based testing (rapid) with structure-aware mutation of valid encodings + exhaustive sweep of all 16-bit element counts + native coverage-guided fuzzing; oracle = no panic, measured allocation bound, decode/encode/decode stability",
    design_ref="DESIGN.md section 4, C04",
    level_text="Generated-input search over mutated valid encodings (every length/count field x hostile values, truncations, extensions, type bytes) and random bytes, for Unmarshal and DecodeDir; "
               "panics are caught, allocation is measured per call. Exploration: cannot show absence of a hostile input outside the explored classes.",
    level_note="Trusted: runtime.MemStats accounting; the chosen bound 256 KiB + 96*len as the reading of 'small constant plus linear'.",
 ),
 "C02": dict(
    technique="property-based testing (rapid) of Channel.WriteFcall over a tapped in-memory conn, msize generated relative to each message's frame size; oracle built from the reference encoder",
    design_ref="DESIGN.md section 4, C02",
    level_text="Generated-input search concentrated on the boundary (every msize within +-40 of the message's frame size is reachable and frequently drawn); expected wire bytes are computed independently of the code under test.",
    level_note="Trusted: refwire encoder, memconn tap. I/O faults are out of scope here.",
 ),
 "C03": dict(
    technique="property-based testing (rapid) of Channel.ReadFcall on generated frame streams with generated read chunkings; absolute oracle from a reference decoder plus metamorphic frame-isolation check; native fuzzing with a reference frame splitter",
    design_ref="DESIGN.md section 4, C03",
    level_text="Generated-input search over sequences of frame classes x msize x chunkings; both an absolute and a metamorphic (same frame alone on a fresh channel) oracle; panics are caught and reported.",
    level_note="Trusted: refwire decoder, memconn read plan. Nothing is asserted after an impossible length prefix or a truncated stream.",
 ),
 "C08": dict(
    technique="model-based property testing (rapid-generated operation histories, shrunk as one value) of SFileSys against a reference fid table; real table read through a build-tagged hook after every step",
    design_ref="DESIGN.md section 4, C08",
    level_text="Stateful generated-history search with an explicit reference model: outcome, returned qids, target handle of each file-system call and the complete fid table are compared after every step.",
    level_note="Trusted: mockfs conventions, the reference model in harness/sessfs/engine.go, the read-only hook VerifFidTable. Auth fids are not modelled (an afid other than NOFID must fail).",
 ),
 "C13": dict(
    technique="model-based property testing with fault injection into every FileSys/Dirent/File call and Stop at generated points; oracle = per-handle release accounting in the instrumented mock",
    design_ref="DESIGN.md section 4, C13",
    level_text="Generated histories x generated failure points; each entry handed out by the mock is a unique handle whose releases and later uses are counted, so leaks, double releases and use-after-release are observed directly.",
    level_note="Trusted: mockfs instrumentation; hook VerifFidTable. Concurrent release paths are C14's business.",
 ),
 "C20": dict(
    technique="model-based property testing (rapid histories) of CFileSys over a recording Session spy over the real SFileSys; server fid table read through the verif hook",
    design_ref="DESIGN.md section 4, C20",
    level_text="Stateful generated-history search; the spy observes every session call the client layer makes, the hook observes what the server actually bound, so leaks and mis-addressed calls are seen directly.",
    level_note="Trusted: spy, mockfs, VerifFidTable. The client layer is exercised in-process (no wire); the wire path is C09/C17.",
 ),
 "C17": dict(
    technique="property-based testing (rapid) of Readdir at three levels (direct, through SFileSys, end-to-end over a connection with forced msize) against the reference stat encoder",
    design_ref="DESIGN.md section 4, C17",
    level_text="Generated listings x iterator batchings x read-size sequences x msize; the oracle is byte equality of the concatenated replies with independently encoded entries plus whole-entry boundaries.",
    level_note="Trusted: refwire.EncodeStat, mockfs listing order, the msize-forcing connection wrapper.",
 ),
 "C14": dict(
    technique="property-based concurrency testing: rapid-generated concurrent histories with a harness-owned schedule (gates at every file-system call), overlap monitors in the mock (entries, open files, directory iterators), structural deadlock detector, per-fid binding-conservation law over the results, linearizability of the recorded invocation/return history against a pure sequential specification (porcupine as the history checker), Go race detector",
    design_ref="DESIGN.md section 4, C14",
    level_text="Generated concurrent histories x generated release orders of parked file-system calls; violations are observed (overlapping calls, goroutines that never return, fids left locked or half-bound, results that no sequential order consistent with real time can explain - by the count of binds and unbinds per fid, and by a porcupine search over the recorded history against the sequential specification -, race reports), never inferred.",
    level_note="Trusted: mockfs in-call counters, the settle heuristic of the gate controller (affects which interleavings are explored, never the verdict), the race detector. Trusted too: the pure sequential specification in sessconc/linear.go (a re-statement of the C08 reference model and of mockfs's tree semantics) and porcupine v1.3.0; outcomes the property text leaves open are accepted whatever they are, directory-read contents are C17's.",
 ),
 "C06": dict(
    technique="property-based testing (rapid) of ServeConn with a scripted Handler (parks every invocation) and a scripted raw client speaking an independent codec; model = multiset of owed replies",
    design_ref="DESIGN.md section 4, C06",
    level_text="Generated request/completion schedules incl. pipelining and out-of-order completion; each reply is attributed by tag and by a marker embedded in the payload, so misrouted, duplicated, missing or altered replies are observed.",
    level_note="Trusted: refwire codec, scripted handler, 10 s bound for 'a reply is missing'.",
 ),
 "C07": dict(
    technique="property-based testing (rapid) of ServeConn flush handling: generated flush timings relative to handler start/completion, tag reuse while the flushed handler is still running, late completions; markers make stale replies attributable",
    design_ref="DESIGN.md section 4, C07",
    level_text="Generated schedules put the flush before, concurrently with and after the handler's completion and reuse the freed tag; a stale reply is recognised by its marker regardless of the tag it travels on.",
    level_note="Trusted: as C06. Instruction-level interleavings inside the serve loop are chosen by the scheduler (each racy window is hit with high probability per case and many cases are run).",
 ),
 "C11": dict(
    technique="fault-injection property testing (rapid): generated sets of in-flight requests x fault kind x byte offset against the real ServeConn/SSession/SFileSys stack over an instrumented mock file system; crashes recovered from a per-case journal",
    design_ref="DESIGN.md section 4, C11",
    level_text="Fault-point enumeration by generation: every (fault kind x in-flight operation kind) cell is required to be covered in the thorough tier; release accounting and the fid table are observed directly after shutdown.",
    level_note="Trusted: memconn fault injection, mockfs release accounting, VerifFidTable. Termination is tested as 'within 10 s', not proved.",
 ),
 "C05": dict(
    technique="property-based testing (rapid) of the client transport against a scripted server that controls reply order; tag-wrap histories (>65535 requests); allocateTag law through a hook; Go race detector",
    design_ref="DESIGN.md section 4, C05",
    level_text="Generated call/reply/abandon schedules with the reply permutation fully controlled by the harness; tag uniqueness is checked by the server on every arrival, result attribution by markers.",
    level_note="Trusted: refwire, scripted server, VerifAllocateTag wrapper. Interleavings inside the transport are those the scheduler produces under the controlled reply orders.",
 ),
 "C12": dict(
    technique="fault-injection property testing (rapid): generated scripts of hostile replies, malformed frames, per-call cancellations and deadlines, late replies to abandoned calls and connection failures (plain and net.Error) against the real CSession; process crashes recovered from the case journal; Go race detector",
    design_ref="DESIGN.md section 4, C12",
    level_text="Generated misbehaviour scripts with 0..n calls pending; liveness is tested as 'returns within 10 s'; crash-freedom by surviving the script (the driver turns a dead child into a replayable violation).",
    level_note="Trusted: memconn fault injection, refwire. Both 'ignore' and 'give up on the session' are accepted reactions to a stray or malformed frame.",
 ),
 "C09": dict(
    technique="property-based differential testing (rapid): every Session method called through CSession/ServeConn/SSession against a recording session, arguments and results compared both ways; forced msize; concurrent callers with marker-derived results; race detector",
    design_ref="DESIGN.md section 4, C09",
    level_text="Generated argument/result values with boundary bias and a generated negotiated msize; the oracle is equality at both ends modulo the documented wire limits only.",
    level_note="Trusted: recording session, msize-forcing connection wrapper. The D14 wedge (>=5 concurrent callers over a zero-buffer connection) is a listed known finding, excluded by construction and probed separately (TestC09_ProbeD14).",
 ),
 "C10": dict(
    technique="property-based testing (rapid) of both ends of version negotiation against scripted peers (scripted handler, and a served Session whose own msize is below the agreed one), followed by maximal-size traffic in both directions",
    design_ref="DESIGN.md section 4, C10",
    level_text="Generated proposals/answers over the whole 32-bit range with boundary density; after the handshake the harness sends and provokes frames of exactly the agreed size and one byte more.",
    level_note="Trusted: refwire, scripted handler/peer.",
 ),
 "C18": dict(
    technique="model-based property testing (rapid histories over 1..3 sessions) of ramfs against a reference tree keyed by node identity, reference-count validator through a hook; concurrent sessions under the Go race detector",
    design_ref="DESIGN.md section 4, C18",
    level_text="Stateful generated histories with boundary-biased 64-bit offsets and canned preludes (generated parameters) that reach stale-handle and removed-directory states; every call runs under recover; the concurrent variant asserts no panic, no race report, no deadlock and a consistent final reference count.",
    level_note="Trusted: the model in harness/ramfsx/model.go, the hook VerifNewServer (fresh instance + nref validator). The concurrent variant does not assert per-call results.",
 ),
 "C15": dict(
    technique="property-based testing (rapid histories with a hostile-name alphabet) of the ufs server on a temporary host tree; oracle = invariance of a full snapshot of everything outside the export + identity of returned inodes",
    design_ref="DESIGN.md section 4, C15",
    level_text="Generated request sequences put every special name form into every name-carrying field from every depth; the effect on the host is observed directly by snapshotting the area outside the export after every step.",
    level_note="Trusted: the host file system and os.Lstat/ReadFile for the snapshot. Reads outside that leave no trace in results are not observable.",
 ),
 "C19": dict(
    technique="model-based property testing (rapid histories) of the ufs server against a twin directory driven by the equivalent direct OS calls; tree comparison after every step",
    design_ref="DESIGN.md section 4, C19",
    level_text="Stateful generated histories with the oracle the property itself names (the direct OS operation); outcome, data and the whole exported tree are compared after each step.",
    level_note="Trusted: the host kernel as reference, the per-fid bookkeeping in harness/ufsx/c19.go (paths, open handles).",
 ),
}
