"""Per-property prose for MANIFEST.json."""
NOT_APPLICABLE = {}
TEXT = {
 "C16": dict(
    technique="property-based testing (rapid) against a reference stack-machine resolver + exhaustive small-scope enumeration + native fuzzing",
    design_ref="DESIGN.md section 4, C16",
    level_text="Generated-input search: every exported path helper is compared with an independent reference resolver on 20k (quick) / 2.4M (thorough) "
               "random (dir, name-list) pairs over an alphabet containing every special form, plus complete enumeration of all lists of length <=3/4 over that "
               "alphabet. The helpers are pure functions of small inputs, so this reaches every branch combination; it is exploration, not proof.",
    level_note="Trusted: the reference resolver (harness/paths/paths.go), written from the property statement. Names longer than 4 random characters and lists longer than 8 are not generated.",
 ),
}
