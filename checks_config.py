"""Per-property configuration of the driver: which harness package, which
test groups with how many generated cases per tier, race detector, native
fuzz targets, the non-triviality rule that the harness implements."""

def G(run, quick, thorough, **kw):
    d = dict(run=run, quick=quick, thorough=thorough)
    d.update(kw)
    return d

CHECKS = {
    "C16": dict(
        pkg="paths",
        level="exploration",
        groups=[
            G("^TestC16_Paths$", 20000, 200000),
            G("^TestC16_Exhaustive$", 1, 1, shard=False),
        ],
        fuzz=[("FuzzPaths", 45)],
        rule="rapid draws (canonical dir of depth 0..5, list of 0..8 names over an alphabet holding every special form "
             "plus short random strings over {. / \\ a b NUL space}); ValidPath/WalkName/CreateName/NormalizePath/ToWalk are "
             "compared with a reference stack-machine resolver. Non-trivial = the list contains an empty, '.', '..' or "
             "separator-containing element; distinct = distinct (dir, list, abs) by 64-bit hash. The Exhaustive test "
             "additionally enumerates all lists of length <=3 (quick) / <=4 (thorough) over the 20-element alphabet x all "
             "dirs of depth <=3 over {a,b} (counted in classes.exhaustive_cases, not in evaluations).",
        exhaustive_note="all name lists of length <= 3 (quick) / <= 4 (thorough) over the alphabet, see classes.exhaustive_cases",
        assumptions=["directories passed to WalkName/CreateName are canonical internal paths, as the property states",
                     "the reference resolver in harness/paths is correct (written from the property text)"],
    ),
}
