"""Per-property configuration of the driver: which harness package, which
test groups with how many generated cases per tier, race detector, native
fuzz targets, the non-triviality rule that the harness implements."""

def G(run, quick, thorough, **kw):
    d = dict(run=run, quick=quick, thorough=thorough)
    d.update(kw)
    return d

CHECKS = {
    "C16": dict(
        pkg="paths",
        level="exploration",
        groups=[
            G("^TestC16_Paths$", 20000, 200000),
            G("^TestC16_Exhaustive$", 1, 1, shard=False),
        ],
        fuzz=[("FuzzPaths", 45)],
        rule="rapid draws (canonical dir of depth 0..5, list of 0..8 names over an alphabet holding every special form "
             "plus short random strings over {. / \\ a b NUL space}; 1 list in 15 has 12..43 names); ValidPath/WalkName/CreateName/NormalizePath/ToWalk are "
             "compared with a reference stack-machine resolver. Non-trivial = the list contains an empty, '.', '..' or "
             "separator-containing element; distinct = distinct (dir, list, abs) by 64-bit hash. The Exhaustive test "
             "additionally enumerates all lists of length <=3 (quick) / <=4 (thorough) over the 20-element alphabet x all "
             "dirs of depth <=3 over {a,b} (counted in classes.exhaustive_cases, not in evaluations).",
        exhaustive_note="all name lists of length <= 3 (quick) / <= 4 (thorough) over the alphabet, see classes.exhaustive_cases",
        assumptions=["directories passed to WalkName/CreateName are canonical internal paths, as the property states",
                     "the reference resolver in harness/paths is correct (written from the property text)"],
    ),
    "C01": dict(
        pkg="wire",
        level="exploration",
        groups=[
            G("^TestC01_Msg$", 300, 3000),
            G("^TestC01_Dir$", 1000, 10000),
            G("^TestC01_Concurrent$", 150, 1500),
            G("^TestC01_Collisions$", 1, 1, shard=False),
        ],
        fuzz=[("FuzzDecodeVsRef", 60)],
        rule="one rapid sub-property per message kind (27 kinds iterated, not drawn) with boundary-biased fields (0/1/max integers, NOTAG/NOFID, "
             "empty / non-UTF-8 / NUL / 255-256-byte / (thorough) 65535-byte strings, lists of 0,1,16,17,..,(thorough) 65535 elements, data up to "
             "(thorough) 3 MiB, stat records up to 65535 bytes, times in three locations) plus stand-alone Dir/Qid and EncodeDir/DecodeDir. Oracle: "
             "bytes equal an independent reference encoder written from the manual (refwire), Size == len, decode(library bytes) == decode(reference "
             "bytes) == original. Non-trivial = not the zero value of its kind; distinct = distinct (kind, case) by 64-bit hash of the case JSON.",
        require_classes=dict(quick=["kind_" + k for k in "Tversion Rversion Tauth Rauth Tattach Rattach Rerror Tflush Rflush Twalk Rwalk Topen Ropen Tcreate Rcreate Tread Rread Twrite Rwrite Tclunk Rclunk Tremove Rremove Tstat Rstat Twstat Rwstat".split()],
                             thorough=["has_maxlen_string", "list_65535", "data_1MiB"]),
        assumptions=["refwire (harness/internal/refwire) is a correct reading of intro(5)/stat(5)",
                     "messages are value types inside *Fcall, as every caller in the repository builds them"],
    ),
    "C04": dict(
        pkg="wire",
        level="exploration",
        groups=[
            G("^TestC04_Untrusted$", 20000, 100000),
            G("^TestC04_(Corpus|AllocRatio|CountSweep)$", 1, 1, shard=False),
            G("^TestC04_Concurrent$", 150, 1500),
        ],
        fuzz=[("FuzzUnmarshal", 90), ("FuzzDecodeDir", 60)],
        rule="valid encoding of a random message of any kind (or of a stat record for DecodeDir) with 1-3 mutations: any length/count field "
             "(located by the reference encoder's field map) overwritten with a hostile constant / true value +-1 / random, truncation at any point, "
             "appended bytes, changed type byte (incl. 106 and out-of-range), single byte flips; 10% unstructured random bytes; plus a deterministic "
             "corpus of every kind x every length field x 8 hostile constants. Oracle: no panic; TotalAlloc delta <= 256 KiB + 96*len(input) (re-measured, "
             "minimum of 3); on success decode(encode(v)) == v. TestC04_Concurrent: 1..5 mutated inputs (always one stat record whose size field claims more than the "
             "input holds) are decoded once alone, then 2..8 goroutines decode them again together with valid messages and records on the shared codec (DecodeDir also "
             "through a one-byte reader): no panic, every outcome equals the outcome of the same input alone, valid inputs decode to the reference value. "
             "One input in six is a shape a decoder accepts but an encoder never produces from ordinary values: a stat record filled by its strings up to size-field values 65532..65535 (the outer size of Rstat/Twstat wraps), or a directory entry whose name ends in '/', '//', '/.', '/..' - with 0..3 further mutations. Non-trivial = input differs from the valid encoding and is longer than 3 bytes.",
        assumptions=["allocation is measured with runtime.MemStats.TotalAlloc around the single decode call, in a process that runs nothing else",
                     "the bound 256 KiB + 96*len is the weakest reading of 'small constant plus linear'; TestC04_AllocRatio re-validates on every run that the densest valid inputs (ratio ~26) stay inside it"],
    ),
    "C02": dict(
        pkg="frame",
        level="exploration",
        groups=[G("^TestC02_Write$", 6000, 40000), G("^TestC02_RW$", 25, 150, shrinktime="5s")],
        rule="1-3 WriteFcall operations on one channel over a tapped in-memory connection, optionally with SetMSize in between; the message is drawn first "
             "(any kind, Twrite/Tread over-represented), then msize = its frame size + delta, delta in -40..+40 (60%) or small/huge/random in [24, 2^20]; "
             "Tread counts near msize-11, 2^31 and 2^32; 10% cancelled contexts. Oracle written independently of maybeTruncate from the property text: "
             "expected tap contents computed with the reference encoder. TestC02_RW: over a net.Pipe-like connection (a write returns when the peer has taken the bytes; deadlines "
             "honoured; what the peer has not taken when a write gives up is never delivered) the peer takes 1..8 bytes of the frame and stalls; meanwhile a ReadFcall on the same "
             "channel runs into its own 15..40 ms deadline; 10..30 ms later the peer takes the rest: the write (live context) must have emitted exactly its one frame. "
             "Non-trivial = |frame - msize| <= 40 or a truncate/clamp/refuse path was taken.",
        require_classes=dict(quick=["twrite_truncated", "twrite_exact", "tread_clamped", "other_refused", "other_exact", "other_over_by_1", "cancelled", "write_across_read_deadline"], thorough=[]),
        assumptions=["msize >= 24 as the property states", "the connection accepts every write (no I/O faults; those belong to C11/C12)"],
    ),
    "C03": dict(
        pkg="frame",
        level="exploration",
        groups=[G("^TestC03_Read$", 4000, 30000), G("^TestC03_Wait$", 300, 1500)],
        fuzz=[("FuzzFraming", 90)],
        rule="byte stream = 1..8 (thorough 1..20) frame specs: valid message of any kind, frame filled to exactly msize-k (k 0..5), oversize by k, "
             "well-framed garbage/unknown type, body cut short at any point, length prefix 4..6, and only as last element an impossible prefix 0..3 or a "
             "stream ending mid-frame; msize in [24, 8192] boundary-dense; the connection hands the bytes out in generated chunk sizes (1-byte reads, splits "
             "inside the length prefix, large reads). Oracle: per frame, the reference decoder applied to that frame's own bytes and msize (absolute), and the "
             "same frame alone on a fresh channel (isolation). As last element also: an oversize frame whose stream ends inside (or before) the part to be discarded - an error, and "
             "if it is reported as an overflow then of exactly the claimed excess - and a length prefix of 2^31..2^32-1 (and 2^31-1) followed by bytes that look like well-formed "
             "frames (they belong to the one enormous frame: no message may be delivered from them). TestC03_Wait: 1..6 well-formed frames, up to 3 of them read by a ReadFcall "
             "that is already waiting (0..7 bytes of the frame present) when its context is cancelled, the rest of the frame arriving afterwards: the read may return the message "
             "or an error, but then the next read must deliver that frame (no frame lost, order kept). "
             "One frame class in ten is a well-formed Rstat/Twstat whose stat record is 1..30 bytes longer than its known fields (both size fields consistent): it must be delivered as its message. Non-trivial = a non-first frame follows a frame of a different class, or reads split the length prefix, or a read was cancelled while waiting.",
        require_classes=dict(quick=["f_valid", "f_fill", "f_oversize", "f_garbage", "f_short", "f_tiny", "f_badprefix", "f_cutstream", "f_cutoversize", "f_hugeprefix", "split_prefix", "after_setmsize", "setmsize_between_reads"], thorough=[]),
        assumptions=["after an impossible length prefix (0..3) or a premature end of stream nothing further is asserted (the position of the next frame is undefined)",
                     "the reference decoder (refwire.Decode) defines which bodies are decodable; it agrees with the library on millions of fuzzed inputs (C01 FuzzDecodeVsRef)"],
    ),
    "C08": dict(
        pkg="sessfs",
        level="exploration",
        groups=[G("^TestC08_Session$", 1500, 100000)],
        rule="sequential histories of 1..40 (thorough 80) session operations (attach/walk/open/create/read/write/stat/wstat/clunk/remove) on p9p.SFileSys over an "
             "instrumented mock file system; fids from a 5-value pool plus NOFID and a never-bound value; name lists incl. '..', missing, non-normal; ~8% of operations "
             "have a file-system failure or a partial walk injected; 8% are called with a context that is already cancelled; two of the mock's directories and some created files carry "
             "composite qid types (QTDIR|QTTMP, QTDIR|QTAPPEND|QTEXCL, QTAPPEND); half of the failing open/opendir/create calls hand back non-nil placeholder values next to their error (as ramfs does), "
             "and one history in six contains such a failure followed by read/open/read on the same fid; a third of the wstats are the all-'don't touch' (sync) record. After every step the result and (via the verif hook) the real fid table are compared with a "
             "reference fid table written from the property text. Non-trivial = the history contains a walk onto a bound fid, an in-place walk, a partial walk, reuse of a "
             "clunked fid, or read/write on a wrongly opened fid; distinct by hash of the history.",
        require_classes=dict(quick=["walk_onto_bound", "inplace_walk", "partial_walk", "reuse_after_clunk", "io_wrong_mode", "attach_onto_bound", "second_open", "nofid", "fs_error_injected"], thorough=[]),
        assumptions=["the mock file system follows the conventions of the repository's own file systems (clone on empty walk, error when the first element is missing, partial qids + unusable placeholder otherwise, successful create consumes the parent handle)",
                     "where the property text is silent (walk/create on an already open fid; the end state of a create whose new directory cannot be opened) both outcomes are accepted",
                     "FileSys methods never return (nil, nil)"],
    ),
    "C13": dict(
        pkg="sessfs",
        level="fault_enumeration",
        groups=[G("^TestC13_Release$", 1500, 100000)],
        rule="same state machine as C08 with heavy fault injection (25% of operations make the mock's attach/walk/open/opendir/create/read/write/stat/wstat/clunk/remove call fail, "
             "or cut a walk short; 8% of operations are called with an already cancelled context) and Session.Stop at a generated step (25%) or at the end. Oracle: per mock handle release counter and use-after-release flag; after every step no bound fid "
             "points at a released handle; after Stop no fid is bound and every handle that was ever bound has exactly one release. Non-trivial = a failure was injected into an operation "
             "on a bound fid.",
        require_classes=dict(quick=["fault_on_bound_fid", "stop_midway", "handles_bound"], thorough=[]),
        assumptions=["a successful FileSys-level Create consumes (releases) the parent handle, as ramfs does",
                     "in the corner 'directory created but OpenDir fails' release accounting of the parent and the new entry is not asserted (the property text does not determine it); termination and the end state are"],
    ),
    "C20": dict(
        pkg="sessfs",
        level="exploration",
        groups=[G("^TestC20_Client$", 1500, 80000)],
        rule="histories of 2..30 (thorough 60) file-system-level operations (Attach/Walk/Open/OpenDir/Create/Stat/WStat/Clunk/Remove/read) on entries obtained from "
             "p9p.CFileSys layered over a recording spy over SFileSys(mockfs); walk name lists include '.', '', 'x/..' forms, missing and partial targets, separators; "
             "10% injected file-system failures; a third of the wstats are all-'don't touch' records (exactly one session call is still due); a sixth of the clunks/removes fail in transit (the fid stays bound on the server "
             "and the caller retries later); a third of the reads fail in transit (an I/O error that is not end-of-file, before reaching the session); 1 walk in 12 names a chain of 16..23 "
             "directories (complete, with a missing element near the end, or cut short by the server); 1 case in 15 runs against a server that exports a single regular file. Oracle: the spy shows exactly the corresponding session call on the entry's own fid; live entries and server fids "
             "(read through the verif hook) correspond one to one after every step; a walk is reported as success iff the server completed it; after clunking every "
             "entry the server table is empty. Non-trivial = a walk whose names are changed by normalisation, or a partial walk.",
        require_classes=dict(quick=["walk_normalised", "walk_partial", "walk_complete", "walk_failed", "create_ok", "walk_over_16_names", "file_rooted_export", "read_fails_in_transit", "wstat_sync", "release_fails_in_transit"], thorough=[]),
        assumptions=["operations are only issued on live entries (using an entry after Clunk/Remove is caller misuse)",
                     "Create with a name the client rejects locally may legitimately issue no session call"],
    ),
    "C17": dict(
        pkg="readdir",
        level="exploration",
        groups=[G("^TestC17_Readdir$", 3000, 100000), G("^TestC17_Session$", 1500, 40000), G("^TestC17_EndToEnd$", 300, 6000)],
        rule="listing of 0..60 entries with name/uid lengths 0..300; the underlying iterator hands them out in generated batch sizes and ends with (nil,nil), (empty,nil) or io.EOF; "
             "read counts = largest encoded entry + {0,1,2,..120,..3000,70000}; 12% of reads are preceded by a read at a wrong offset. Three levels: p9p.NewReaddir directly, "
             "through SFileSys on a mock directory (1 case in 8: the directory read is a new one, created with DMDIR and read through the create fid - its listing is empty whatever its parent holds), "
             "and end to end CFileSys(CSession) <-> ServeConn with the negotiated msize forced to a generated value (1 case in 4: one iterator call is made with an already cancelled context and the caller "
             "carries on; 1 in 10: an entry whose encoding is within 24 bytes of msize 65536). Oracle: the reference "
             "encoder's stat records concatenated in listing order; every reply is a run of whole entries, at most count bytes, empty iff everything was delivered. "
             "Two read buffers in three are windows into a larger buffer (spare capacity filled with a sentinel): the reply must respect len(p) and leave what lies behind it alone. Non-trivial = at least 2 entries and at least 2 non-empty reads (an entry boundary met a buffer boundary).",
        require_classes=dict(quick=["multi_read", "empty_listing", "wrong_offset_rejected", "level1", "level2", "level3", "end_nil", "end_empty", "end_eof", "iterator_call_cancelled", "entry_within_24_of_max_msize"], thorough=[]),
        assumptions=["every read count is at least the largest encoded entry, as the property states", "the underlying iterator returns no errors"],
    ),
    "C14": dict(
        pkg="sessconc",
        race=True,
        level="exploration",
        groups=[G("^TestC14_", 400, 20000, shrinktime="10s")],
        rule="a sequential prefix binds/opens shared fids 0..3, then 2..5 goroutines run 3..8 operations each on one SFileSys(mockfs), sharing those fids on purpose "
             "(clunk/remove vs read/walk/stat/open/create on the same fid) while new fids are allocated disjointly per goroutine; 25% of operations have a file-system "
             "failure injected. In 75% of the cases every mock file-system call parks at a gate inside the session's critical section and a generated schedule decides which "
             "parked call proceeds next; 25% run free. Oracle: every operation returns (deadlock detector: nothing parked, nothing finishing for 10 s); the mock's per-handle "
             "per-open-file and per-directory-iterator in-call counters never exceed 1; per fid, (bound at the start) + (operations that reported binding it) - (clunk/remove "
             "operations that did not report 'unknown fid') must equal (bound at the end) - a necessary condition for the results to be those of some sequential order; no fid "
             "locked or half-bound at quiescence; the whole invocation/return history with every recorded result (error class, qids, data, counts, stat fields) is linearizable "
             "w.r.t. a pure re-statement of the C08 reference model plus the mock's tree (porcupine, 10 s search budget per history; class lin_checked; lin_tainted = the "
             "explanation passed through a state the property text leaves undetermined; lin_budget_exhausted = inconclusive for that history); race detector. "
             "One case in six contains crossing walks (a -> b in one goroutine, b -> a in another, both shared fids, a third request on a) and one in six a create of a directory that "
             "then cannot be opened (which unbinds the fid) with a request on the same fid in every other goroutine; the mock must never see a call on an entry the session has released, nor a second "
             "release, except the clunk of the consumed parent in exactly that unspecified corner. "
             "Non-trivial = two operations on the same fid overlapped in real time.",
        require_classes=dict(quick=["same_fid_overlap", "gated", "free_running", "lin_checked", "crossing_walks"], thorough=[]),
        assumptions=["clients never allocate the same new fid from two requests at once (the property's proviso)",
                     "interleavings are controlled at file-system-call granularity plus whatever the Go scheduler adds; race freedom is 'no report on the explored runs'"],
    ),
    "C06": dict(
        pkg="server",
        level="exploration",
        groups=[G("^TestC06_Script$", 400, 20000)],
        rule="scripts of 1..30 (thorough 50) steps against the real ServeConn with a scripted Handler and a raw reference-codec client: send (any of the 27 kinds except Tflush, "
             "tags from a 16-value universe incl. 0/0xFFFE/0xFFFF, unique marker embedded in the message), complete (a parked handler chosen by index returns a generated R message "
             "or an error, MessageRerror or plain, incl. texts with '%', texts of 127/128/216 bytes, multi-byte texts, 'duplicate tag'; a quarter of the failing handlers return a message together with their error - the error is the result), one third of the steps pipelined without waiting; 1/6 of the sends reuse the tag of a request whose handler is parked. "
             "Both buffered and rendezvous (net.Pipe-like) connections; msize 400..1 MiB. Oracle: multiset of owed replies; every frame must match an owed reply exactly (tag, "
             "content, marker), handler invoked exactly once per dispatched request with the message sent (inbound Tread count clamp applied), duplicate-tag request gets the "
             "duplicate-tag error and no invocation, nothing extra at quiescence. One script in 12 runs on top of 100..300 requests sent back to back and left outstanding "
             "(pipelining depth 127/128/129/255/256/257 and random); one script in 25 contains a pause of 320..420 ms on a connection whose read deadlines run 100 times faster, "
             "i.e. longer than the server's 30 s idle read timeout, with or without handlers still running, after which the connection must still serve; one script in 10 makes the server's Read fail once with a temporary (non-timeout) net.Error, after which "
             "a round trip must still work. "
             "Non-trivial = handlers completed out of arrival order, or a duplicate-tag step.",
        require_classes=dict(quick=["duptag", "duptag_tflush", "err_canceled", "err_deadline", "err_wrap9p", "out_of_order_completion", "pipelined", "rendezvous", "buffered", "burst_over_128", "idle_past_read_timeout", "message_together_with_error", "temporary_read_error"], thorough=[]),
        assumptions=["handler results fit in msize (the property's proviso)",
                     "a tag is reused only when its state is certain (handler parked, or reply already read), which keeps the oracle exact",
                     "'no reply within 10 s although the handler returned' counts as a missing reply (normal latency is microseconds)"],
    ),
    "C07": dict(
        pkg="server",
        level="exploration",
        groups=[G("^TestC07_Script$", 600, 25000), G("^TestC07_Wrap$", 1, 3, shrinktime="1s", timeout="30m")],
        rule="TestC07_Wrap: 8 requests are flushed while their handlers (which ignore cancellation) keep running; 65528 (+-1) requests are served; the 8 tags are reused - each exactly 65536 "
             "requests after the flushed one - and only then do the old handlers return: every reused tag gets its own result. "
             "C06 machinery (incl. one script in 12 on top of 100..300 outstanding requests) plus Tflush steps at every timing: target = a parked handler / a request whose handler has not been observed yet / an already answered tag / a never used tag; "
             "the target's handler is released right before or right after the Tflush is written (racing it) or only later (late completion); handlers that honour cancellation and "
             "handlers that ignore it; new requests deliberately reuse the tag of a flushed request whose handler is still running, and that handler then completes late. Oracle after the "
             "flush acknowledgement was read: handler context done; no frame carrying the flushed request's marker ever arrives; the request reusing the tag gets exactly one reply with "
             "its own marker; every Tflush gets exactly one reply. A quarter of the late completions of flushed requests return a result larger than msize (an Rread with msize bytes of data): it must vanish like any other. Non-trivial = a flush of an outstanding tag whose handler completes after the flush was sent.",
        require_classes=dict(quick=["late_completion_after_flush", "reuse_while_running", "flush_parked_handler", "release_just_after_flush", "release_just_before_flush", "flush_answered", "flush_unused", "flush_before_handler_start", "late_oversize_completion_after_flush"], thorough=[]),
        assumptions=["a reply to the flushed request that arrives before the flush acknowledgement is allowed",
                     "the type of the reply to a flush of a non-outstanding tag (Rflush or Rerror) is not asserted",
                     "the exact instant at which a handler completes relative to the flush being processed is chosen by the Go scheduler; the generator forces both orders and the concurrent burst"],
    ),
    "C11": dict(
        pkg="server",
        level="fault_enumeration",
        groups=[G("^TestC11_Shutdown$", 300, 30000, shrinktime="10s")],
        rule="real ServeConn(SSession(SFileSys(mockfs))) with a raw reference-codec client. A fixed prefix binds fids, then 1..6 requests of generated kinds "
             "(walk, walk in place, clone, attach, open, opendir, create, read, write, stat, wstat, clunk, remove) are in flight: parked inside the mock file system holding their fid locks "
             "(returning when their context is cancelled, or only after Stop has been entered; a quarter of them then fail with the context's error, as a cancelled file system does, "
             "and for a walk in place only the session's Clunk of the old entry may fail), or completing normally in a burst at that instant; read/write/stat/wstat requests may share one "
             "open fid (queueing behind its lock), and a third of those have a slow handler goroutine that reaches the session only while Stop is inside that fid's Clunk; in a third of the cases the file system's "
             "Clunk honours its context (the clunks issued by Stop return when that context is done), and in a third the clunks issued by Stop report an error (the sweep must go on); optionally the client has "
             "stopped reading replies. Then one fault: read error after 0..30 bytes of a further frame, write error after 0..30 further output bytes (or under a blocked write), "
             "peer close, or context cancel. Oracle: ServeConn returns within 10 s; the context of every parked handler is cancelled; handlers return; Stop ran exactly once; "
             "afterwards the fid table (verif hook) has nothing bound or locked, every entry the mock handed out has exactly one release and none was used after its release; a crash of the process is reported "
             "through the journal. Non-trivial = at least one handler in flight at the fault; distinct by hash of the scenario.",
        require_classes=dict(quick=["fault_readerr", "fault_writeerr", "fault_peerclose", "fault_cancel", "client_not_reading", "duptag_in_flight", "fs_call_fails_when_cancelled", "inflight_on_shared_open_fid", "slow_handler_meets_stop", "inflight_walkinplace", "clunk_honours_stop_context", "stop_clunks_report_errors"] + ["inflight_" + k for k in "walk clone attach open opendir create read write stat wstat clunk remove".split()],
                             thorough=[f + "×" + k for f in ("readerr", "writeerr", "peerclose", "cancel") for k in "walk clone attach open opendir create read write stat wstat clunk remove".split()]),
        assumptions=["handlers return once cancelled (the property's proviso): parked file-system calls return when their context is done, some only after Stop was entered",
                     "'within bounded time' is tested as 10 s (normal: well under a millisecond); the library's own 30 s I/O deadline never comes into play on these connections",
                     "a read error combined with a client that has stopped reading is not generated: back-pressure stops the server from reading, so the error cannot be observed"],
    ),
    "C05": dict(
        pkg="client",
        race=True,
        level="exploration",
        groups=[G("^TestC05_Mux$", 300, 2000), G("^TestC05_Alloc$", 600, 800), G("^TestC05_Wrap$", 1, 3, shrinktime="1s", timeout="30m"),
                G("^TestC05_Depleted$", 1, 3, shrinktime="1s", timeout="30m"), G("^TestC05_SlowReply$", 12, 60, shrinktime="5s")],
        rule="real CSession against a scripted raw server that holds every request and answers in a generated order: steps call (any of the 11 Session methods, unique marker in the fid), "
             "reply (a held request chosen by index, correct reply carrying the marker or an Rerror), cancel (the caller abandons a pending call; its request stays unanswered or is answered late); "
             "a third of the steps are issued without waiting (concurrent callers, pipelined replies); buffered and rendezvous connections. The server checks on arrival that the tag is not NOTAG and not "
             "the tag of any received-and-unanswered request (abandoned ones included); the caller checks it got the result carrying its own marker. Plus: tag-wrap histories of 65.6k-67k calls with 1..6 early "
             "requests left unanswered for ever (a third of the error replies carry texts the library itself uses - 'duplicate tag', 'unknown tag', 'closed' ...), and allocateTag as a pure function (verif hook) over arbitrary in-use sets incl. nearly full and full. One call in 7 of the Mux histories cannot be sent "
             "(its context is already cancelled, or it is a Twalk larger than msize) while others are pending: it must fail promptly and leave the pending ones alone. TestC05_Depleted: all 65535 tags "
             "awaiting replies (0..3 live calls, the rest abandoned), then 1..3 calls too many: they fail, nothing is sent with a tag in use, the live calls still get their replies. TestC05_SlowReply "
             "(buffered connection that honours read and write deadlines): the reply to a pending call arrives in two pieces, the second 20..60 ms after the deadline (120..200 ms) of another, unanswered call. "
             "Built with -race. "
             "Non-trivial = at least 2 requests outstanding and replies not in request order (Mux), a non-empty in-use set (Alloc), every wrap history.",
        require_classes=dict(quick=["out_of_order_replies", "abandoned_answered_late", "abandoned_never_answered", "tag_wrap", "pool_depleted", "nearly_full", "rendezvous", "buffered", "local_failure_among_pending", "pool_exhausted_live", "reply_in_pieces_across_deadline"], thorough=[]),
        assumptions=["the scripted server always keeps reading (it never back-pressures the client)",
                     "allocateTag's documented precondition: the in-use map never contains NOTAG"],
    ),
    "C12": dict(
        pkg="client",
        race=True,
        level="fault_enumeration",
        groups=[G("^TestC12_Hostile$", 300, 3000, shrinktime="15s"), G("^TestC12_BlockedWrite$", 40, 400, shrinktime="10s"), G("^TestC12_ProbeD17$", 1, 1, shard=False)],
        fuzz=[],
        rule="real CSession against a misbehaving scripted server: steps call / reply (good, Rerror, wrong R type, T message) / stray reply (unknown tag, NOTAG, repeated tag) / malformed frame "
             "(length prefix 0..3, oversize, garbage, short body, type 106, empty body) / per-call cancel / fault (peer close, I/O error on both directions, session context cancel), then further calls. "
             "Oracle: every call returns within 10 s of the event that decides it; after a fault all pending and later calls return errors; a cancelled call returns context.Canceled; a wrong-typed reply gives "
             "its caller an error; the process survives (a crash is recovered from the journal). After a stray or malformed frame the client may either carry on or give up on the session: both are accepted, "
             "but the final close must release every caller. TestC12_BlockedWrite (zero-buffer connection): 1..3 calls are pending, the server stops reading, one more call is issued (its request "
             "cannot be written: the transport's loop is blocked), then a pending call's context is cancelled: it returns within 5 s; when the server reads again everything else completes. "
             "Non-trivial = at least one call pending when the misbehaviour happens.",
        require_classes=dict(quick=["wrong_type_reply", "t_message_as_reply", "stray_unknown", "stray_notag", "stray_repeat", "malformed_badprefix", "malformed_oversize", "malformed_garbage",
                                    "malformed_shortbody", "malformed_type106", "per_call_cancel", "fault_close", "fault_ioerr", "fault_neterr", "fault_localclose", "fault_ctxcancel", "late_reply_to_cancelled_call", "fault_with_pending_calls", "call_after_failure", "d17_probe", "own_deadline_expired", "own_deadline_short", "own_deadline_long_on_honouring_conn", "cancel_while_transport_blocked_in_write"], thorough=[]),
        assumptions=["'the connection fails' is modelled as both directions failing; a connection that fails only for writes while reads keep working is not asserted",
                     "connection deadlines are not honoured by the buffered in-memory connection, so the library's 30 s default deadline never masks a hang",
                     "known finding D17: a call's own context *deadline* (as opposed to cancellation) is also applied to the shared connection's write; if it expires mid-write the session is poisoned for every later call. Per-call cancellation in the generated scripts therefore uses cancel, and a separate probe reports D17"],
    ),
    "C09": dict(
        pkg="stack",
        race=True,
        level="exploration",
        groups=[G("^TestC09_Seq$", 1500, 15000), G("^TestC09_Conc$", 100, 1500), G("^TestC09_ProbeD14$", 1, 1, shard=False)],
        rule="CSession <-> in-memory connection <-> ServeConn(SSession(S)) with S a recording session returning generated results. Sequential: 1..12 calls per connection over all 11 "
             "Session methods with boundary-biased arguments (fids, int64 offsets incl. negative and 2^63-1, buffer/data lengths around msize-11 / msize-23 and far beyond, all modes, perms, "
             "0..20 walk names, Dir records with sub-second times), results or errors (MessageRerror, plain, or a Go error wrapping a MessageRerror; texts with format verbs, texts the library itself uses, texts of 127/128/300 bytes) from S - the caller's error must read, at its end, exactly S's text; in a quarter of the cases the transport "
             "hands over at most 1..7 bytes per Read in both directions; negotiated msize forced to 128..65535 by rewriting the client's Tversion in flight. "
             "Oracle: S received exactly the caller's arguments and the caller exactly S's results up to the documented limits (read/write clipped to msize-11/msize-23, ErrShortWrite, whole-second "
             "times, >16 names refused locally, 0-byte read may surface as io.EOF, errors by text). Concurrent: 2..4 (rendezvous) / 2..32 (buffered) callers x 1..12 calls whose results derive from the "
             "fid; each caller must get its own result and some call must complete at least every 5 s until all have; 0..3 (rendezvous: 0..1) pairs of callers meet on a pipe fid, where S's Read returns only what a Write on the same fid hands over (and that Write only returns once it has been taken). Non-trivial = a call with non-zero fid whose S-side result is a success; distinct by case hash.",
        require_classes=dict(quick=["m_" + m for m in "auth attach clunk remove walk read write open create stat wstat".split()] + ["clipped_to_msize", "session_error", "error_with_partial_count", "transport_in_small_pieces", "conc_with_abandoned_calls", "conc_rendezvous", "conc_buffered", "conc_read_waits_for_write_on_same_fid", "d14_probe"], thorough=[]),
        assumptions=["arguments are generated so that every request and reply other than read/write data fits in msize (messages that do not fit are C02's business)",
                     "known finding D14: >= 5 concurrent callers over a zero-buffer connection wedge; the generator stays below that on rendezvous connections and a separate probe (16 callers x 100 calls) reports it"],
    ),
    "C10": dict(
        pkg="stack",
        level="exploration",
        groups=[G("^TestC10_ServerNeg$", 750, 10000), G("^TestC10_ClientNeg$", 750, 10000), G("^TestC10_SessionNeg$", 300, 3000)],
        rule="(a) real ServeConn vs a scripted client proposing any msize in [0, 2^32) (dense at 0..30, 18..24, 2^16+-2, 2^31+-1, 2^32-1) with arbitrary version strings, or a first message that is "
             "not Tversion; then maximal traffic: a Twrite frame of exactly the agreed size (must reach the handler intact), a Tread with count 2^32-1 (handler must see count <= agreed-11, the maximal Rread "
             "must be emitted whole and within msize), a handler result that does not fit (must not be emitted oversize), a frame of agreed+1 bytes (must not be dispatched); the oversize handler result is an Rread, an error text, an Rstat or an Rwalk that cannot fit; 1 case in 6 sends a second Tversion in "
             "mid-connection (refused or accepted - what the server answers is what both directions must honour from then on); 1 in 25: the client stays silent for six negotiation windows (read deadlines scaled) and "
             "then sends a non-version message (must be refused). (b) real CSession vs a scripted "
             "server answering any msize; Version() must be min(65536, answer); then every Session method is called with oversized arguments (incl. a walk whose 16 names add up to more than 65535 bytes) and every frame the client emits must be <= agreed, unsolicited frames after the negotiation (unknown tag, agreed+1 bytes) must not crash the client, and a maximal "
             "read (Rread frame of exactly the agreed size) must be delivered. Refusals: ServeConn must return an error and the handler must see neither Handle nor Stop. "
             "(c) real ServeConn(SSession(S)) where S's own Version() reports any msize from 0 to 70000, i.e. often less than what the handshake agrees: a Twrite frame of exactly the agreed size, and one of S's msize + 1, must be served (Rwrite with the full count). Non-trivial = min(proposal, answer) < 65536 or a refusal.",
        require_classes=dict(quick=["negotiated", "refused_first_message_not_version", "refused_msize_too_small_for_rversion", "max_twrite_delivered", "max_rread_emitted", "oversize_not_dispatched", "agreed_below_24", "emitted_read", "refused_read", "refused_silent_during_negotiation_window", "second_tversion_refused", "refused_walk_big", "unsolicited_frames_after_negotiation", "session_msize_below_agreed"], thorough=[]),
        assumptions=["the server's own maximum is 65536 (DefaultMSize) and the client proposes 65536, as the code documents",
                     "19 bytes (the Rversion frame for '9P2000') is the smallest proposal that can carry the version reply"],
    ),
    "C18": dict(
        pkg="ramfsx",
        race=True,
        level="exploration",
        groups=[G("^TestC18_Seq$", 800, 50000), G("^TestC18_Conc$", 50, 2000, shrinktime="5s"), G("^TestC18_Race$", 30, 600, shrinktime="5s")],
        rule="histories of up to 50 (thorough 100) operations by 1..3 SFileSys sessions on one fresh ramfs instance (verif hook): attach, walk (incl. '..', missing, non-normal names, "
             "through removed directories), clone, create file/dir, open, read, write, truncate (wstat length), stat, clunk, remove, list; offsets over the whole int64 range "
             "(dense at 0, len-1, len, len+1, 2^31, 2^63-1, -1, -2^63), counts 0..64 KiB; a third of the histories start with a canned prelude (parameters generated) that creates a stale handle "
             "to a removed-and-recreated name, a handle inside a removed directory, or a directory with a child held through three fids, removed through the first, 'removed' again through the second "
             "(refused) and then used through the third; a fifth of the truncations also carry a new name (ramfs refuses renames: nothing may change); writes are issued from a per-session buffer that is overwritten "
             "right after each call; half of the file preludes truncate the file and read between the new and the old length. Oracle: a model tree keyed by node identity (removed-but-referenced nodes live on); reads must return exactly "
             "the model's bytes, listings (as sets) exactly the live children plus '..', walks and qids as in the model, no call may panic; after clunking every fid the validator requires "
             "nref == parent links for every node. Concurrent variants: one goroutine per session; all sessions creating one name at the same instant (exactly one wins); one session creating 150..1800 names while the "
             "others spin on walking to the name about to appear; race detector, no panic, final validator. "
             "Non-trivial = a write not at offset 0, a '..' walk or a walk from a removed node, or two sessions touching one node.",
        require_classes=dict(quick=["write_at_nonzero_offset", "dotdot_walk", "walk_from_removed_node", "node_shared_by_sessions", "remove_stale_handle", "huge_offset", "create_race", "create_vs_walk_spin", "concurrent_sessions"], thorough=[]),
        assumptions=["a read at an offset beyond the end (incl. offsets >= 2^63) must deliver zero bytes; whether an error accompanies it is not asserted",
                     "'..' at the root is rejected (the library's documented path rule)",
                     "I/O through a fid that was walked in place while open is not asserted (the property text does not determine its meaning), only that nothing panics",
                     "Dir.Length in listings/stat is not compared (the property does not mention it)"],
    ),
    "C15": dict(
        pkg="ufsx",
        level="exploration",
        groups=[G("^TestC15_Confine$", 400, 10000)],
        rule="temp layout top/{outside.txt, exportx, export-evil/..., other/etc, export/...}; histories of up to 30 (thorough 60) operations on SFileSys(ufs.NewServer(top/export)) from fids bound at "
             "depths 0..3: walk / create / rename (wstat name) with names from a hostile alphabet ('..', '.', '', '../x', '../outside.txt', '../export-evil/secret.txt', '/etc/passwd', 'a/../../x', "
             "'..\\x', '\\', NUL, 300-byte names, '../' x 40, chains of '..' longer than the depth followed by an outside target) in every name-carrying field, plus open/read/write/chmod/truncate/"
             "remove/list on whatever got bound, incl. attempts on the root; creates also with the special permission bits (DMSYMLINK, DMNAMEDPIPE, DMDEVICE, DMSOCKET, DMAPPEND, DMEXCL, DMTMP, DMAUTH, DMMOUNT); "
             "attaches with hostile attach names (the qid returned must be the exported root's); one case in 12 exports a single regular file (opened with ORCLOSE and clunked), one in 12 creates the server with an empty root string while the "
             "working directory is the export; renames also with names that move the object upwards inside the export ('../k2', '../../k2', ...), half of the renames followed at once by a climb ('..' x 1..4 + an outside target) from the renamed fid; "
             "'time passes' steps that change the exported directory's mtime on the host, followed by a root fid obtained afresh (clone, '..' from below, new attach) and an attempt to remove or rename it; "
             "a fifth of the cases on an empty export. No symlinks are created. Oracle after every step: the snapshot (names, types, perms, sizes, contents, inodes, mtimes) of everything "
             "under top but outside top/export is unchanged; top/export is still the same inode; no returned qid path - of any element of a walk, of a listing entry, of a created, opened or attached file - is the inode of an outside object (the directory that holds the export included); no read returned the outside sentinel. "
             "Non-trivial = a hostile name (containing '..', a separator, NUL, empty, '.' or over-long) was used.",
        require_classes=dict(quick=["hostile_name_used", "empty_export", "file_rooted_export", "server_created_with_empty_root"], thorough=[]),
        assumptions=["decided on this kernel/file system, running as root; symbolic links are outside the guarantee and never created",
                     "a bare stat() outside the export that leaves no trace in any result is not observable by this check"],
    ),
    "C19": dict(
        pkg="ufsx",
        level="exploration",
        groups=[G("^TestC19_Mirror$", 300, 12000)],
        rule="histories of up to 30 (thorough 60) operations on SFileSys(ufs.NewServer(export)) over a small tree: create file (permission bits x open mode), mkdir, walk (incl. '..'), open "
             "(OREAD/OWRITE/ORDWR/OEXEC with and without OTRUNC, also combined with the option bits OCEXEC and ORCLOSE), names that begin with two dots but are not '..' ('..data', '...'), read/write at offsets 0..60 and -1, chmod, truncate (0..4096, 2^63), rename (names from a small alphabet so that collisions and "
             "renames onto existing files/dirs occur), remove, stat and listing through freshly walked fids; a fifth of the histories contain a block in which a fid keeps pointing at a name while the "
             "object of that name is replaced, through other fids, by one of the other kind (file <-> directory), after which the stale fid is removed/renamed/stat'ed; a sixth contain an open fid that is renamed (successfully or onto something the host refuses) and then written and read, and a sixth create a plain file under a name that exists as a directory and go on through that fid, a sixth stat a fid reached by a walk ending in '..' directly (name and identity only), a sixth list a "
             "directory, change one of its entries (write, chmod, truncate) without changing the directory, and list it again. Oracle: a twin directory driven by the equivalent direct OS call per operation "
             "(OpenFile(O_CREATE|flags, perm&0777), Mkdir, OpenFile(flags), ReadAt, WriteAt, Truncate, Chmod(mode&0777), rename(2), Remove); after every step the two trees must be identical "
             "(names, types, permission bits, sizes, contents), the session must succeed exactly when the direct operation does, data read through a fid must equal the twin file's bytes, and fresh stats / "
             "listings must match Lstat/ReadDir of the export (name, DMDIR/QTDIR, permission bits, length, whole-second mtime, qid path = inode). "
             "Non-trivial = a write at offset > 0, a truncating open, a rename, chmod, mkdir or truncate happened.",
        require_classes=dict(quick=["write_at_offset", "truncating_open", "rename", "chmod", "mkdir", "truncate", "create_file", "fresh_stat", "listing"], thorough=[]),
        assumptions=["decided on this kernel/file system, as root, with the process umask fixed to 022",
                     "create of an existing name: ufs opens the existing file; the twin does the same (OpenFile without O_EXCL), so both are compared, neither outcome is presumed",
                     "walk/create on an already open fid and I/O through a fid walked in place while open are not asserted",
                     "only single-field wstats are generated: which of several requested changes survive a multi-field Twstat that fails half way is not determined by the property"],
    ),
}
