#!/bin/bash
# usage: seedtest.sh <PROP> <A|B> [tier]
# Confirms a sub-agent's seeded change in a scratch worktree (builds, existing suite passes, demo fails with / passes without),
# stores it under /verif/seeded/<PROP>-<X>/, then runs the property's check against it in /repo and records the outcome.
P=$1; X=$2; TIER=${3:-quick}
SRC=${SEEDROOT:-/tmp/wt}-$P/SEEDED/$X; TAG=${SEEDTAG:-}
[ -f $SRC/patch.diff ] || { echo "no $SRC/patch.diff"; exit 3; }
export GOFLAGS=-mod=mod GOPROXY=off GOSUMDB=off GOTOOLCHAIN=local
SW=/var/tmp/seedwt.$$
git -C /repo worktree add -q --detach $SW HEAD || exit 3
cleanup() { git -C /repo worktree remove --force $SW 2>/dev/null; rm -rf $SW; }
trap cleanup EXIT
cd $SW
git apply $SRC/patch.diff || { echo "RESULT $P-$X: patch does not apply"; exit 3; }
go build ./... 2>&1 | head -3
# the pinned suite has a known load-dependent flake (TestServer compares a shutdown error message,
# ~1% on the pinned tree, more under load): accept the change if the suite passes in one of 4 runs
ok=0
for try in 1 2 3 4; do
  suite=$(go test -vet=off -count=1 ./... 2>&1 | grep -v "no test files")
  if ! echo "$suite" | grep -q "^FAIL\|--- FAIL"; then ok=1; break; fi
done
if [ $ok != 1 ]; then echo "RESULT $P-$X: existing suite FAILS with the change"; echo "$suite" | grep -B2 -A8 -- "--- FAIL" | head -30; exit 4; fi
# place demos
demos=$(ls $SRC/*_test.go 2>/dev/null)
place() { for d in $demos; do pkg=$(grep -m1 '^package ' $d | awk '{print $2}'); case $pkg in p9p|p9p_test) dir=.;; ramfs|ramfs_test) dir=ramfs;; ufs|ufs_test) dir=ufs;; sleepfs|sleepfs_test) dir=sleepfs;; *) dir=.;; esac; cp $d $dir/zz_seeded_$(basename $d); echo $dir; done; }
dirs=$(place | sort -u)
with=0; for d in $dirs; do timeout 180 go test -tags seeddemo -vet=off -count=1 ./$d > /var/tmp/seed.$$.with 2>&1 || with=1; done
git checkout -q -- . ; 
without=0; for d in $dirs; do timeout 180 go test -tags seeddemo -vet=off -count=1 ./$d > /var/tmp/seed.$$.without 2>&1 || without=1; done
echo "demo with change: $([ $with = 1 ] && echo FAILS || echo passes) ; without: $([ $without = 1 ] && echo FAILS || echo passes)"
if [ $with != 1 ] || [ $without != 0 ]; then echo "RESULT $P-$X: demonstration not confirmed"; tail -5 /var/tmp/seed.$$.with /var/tmp/seed.$$.without; rm -f /var/tmp/seed.$$.*; exit 5; fi
rm -f /var/tmp/seed.$$.*
DST=/verif/seeded/$P-$TAG$X
mkdir -p $DST; cp $SRC/patch.diff $DST/; cp $SRC/*_test.go $DST/ 2>/dev/null; cp $SRC/README.md $DST/README.md 2>/dev/null
# now the check
cd /repo && git diff --quiet || { echo "repo dirty"; exit 3; }
git apply $SRC/patch.diff
cd /verif
cp evidence/$P.json /var/tmp/ev.$$.json 2>/dev/null
CK=${CHECK:-$P}
cp evidence/$CK.json /var/tmp/ev2.$$.json 2>/dev/null
start=$(date +%s); ./check $CK --tier $TIER > /var/tmp/seedchk.$$.log 2>&1; rc=$?; end=$(date +%s)
mv /var/tmp/ev2.$$.json evidence/$CK.json 2>/dev/null
mv /var/tmp/ev.$$.json evidence/$P.json 2>/dev/null
git -C /repo checkout -- .
detail=$(grep -m1 'violation detail' /var/tmp/seedchk.$$.log | cut -c1-400)
echo "RESULT $P-$X: check $CK ($TIER) rc=$rc in $((end-start))s $detail"
python3 - "$DST" "$P" "$X" "$rc" "$TIER" "$((end-start))" "$detail" "$CK" <<'PY'
import json,sys,os
dst,p,x,rc,tier,secs,detail,ck=sys.argv[1:9]
meta={}
if os.path.exists(dst+'/meta.json'): meta=json.load(open(dst+'/meta.json'))
meta.update(property=p, variant=x, source="independent sub-agent given only the property text and a scratch worktree",
  confirmed=dict(builds=True, existing_suite_passes=True, demo_fails_with_change=True, demo_passes_without=True, how="seedtest.sh in a scratch worktree under /var/tmp"))
runs=meta.setdefault('check_runs',[])
runs.append(dict(check=ck, tier=tier, exit_code=int(rc), seconds=int(secs), detail=detail.strip()))
json.dump(meta,open(dst+'/meta.json','w'),indent=1)
PY
[ $rc -eq 2 ] && tail -8 /var/tmp/seedchk.$$.log
rm -f /var/tmp/seedchk.$$.log; rm -rf /verif/replays
