#!/bin/bash
# usage: mkregress.sh <PROP> <Dname> <grep-in-commit-subject>
# Reverts one fix commit in the working tree of /repo, runs the check, saves the replay as a regression input, restores.
P=$1; D=$2; G=$3
cd /repo || exit 3
git diff --quiet || { echo "repo dirty"; exit 3; }
C=$(git log --format=%h --grep="$G" -1)
[ -z "$C" ] && { echo "no commit for $G"; exit 3; }
git show $C | git apply -R || { echo "cannot revert $C"; exit 3; }
cd /verif
cp evidence/$P.json /var/tmp/ev.$$.json 2>/dev/null
rm -rf replays
./check $P > /var/tmp/mk.$$.log 2>&1; rc=$?
mv /var/tmp/ev.$$.json evidence/$P.json 2>/dev/null
git -C /repo checkout -- .
echo "$P $D (revert $C) rc=$rc: $(grep -m1 'violation detail' /var/tmp/mk.$$.log | cut -c1-200)"
f=$(ls replays/*.json 2>/dev/null | head -1)
if [ $rc -eq 1 ] && [ -n "$f" ]; then
  mkdir -p regress/$P
  python3 - "$f" "regress/$P/$D.json" "$D" "$C" <<'PY'
import json,sys
src,dst,d,c=sys.argv[1:5]
o=json.load(open(src))
if 'test' not in o: sys.exit("replay has no case: "+str(o.keys()))
o['note']="regression input for %s (found by the check with fix %s reverted)"%(d,c)
json.dump(o,open(dst,'w'),indent=1)
print("saved",dst)
PY
fi
rm -rf replays /var/tmp/mk.$$.log
